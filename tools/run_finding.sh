#!/bin/sh
# run_finding.sh <test file in /verif/findings> <pkg dir rel to /repo> <run regexp>: runs a demonstration test against /repo's working tree (overlay, nothing written to /repo)
export PATH=/root/go/pkg/mod/golang.org/toolchain@v0.0.1-go1.26.2.linux-amd64/bin:$PATH GOTOOLCHAIN=local GOFLAGS=-mod=mod GOPROXY=off
F=/verif/findings/$1; PKG=$2; RUN=$3
mkdir -p /verif/.work
echo "{\"Replace\":{\"/repo/$PKG/zz_verif_finding_test.go\":\"$F\"}}" > /verif/.work/finding_overlay.json
cd /repo && go test -vet=off -count=1 -run "$RUN" -overlay /verif/.work/finding_overlay.json ./$PKG/
