#!/bin/sh
# try_seed.sh <patch> <ID> [extra check args]: apply patch to /repo, run the check, undo. Prints exit code.
P=$1; ID=$2; shift 2
# exclusive use of /repo: long-running checks (tools/sweep.sh) hold the lock shared
exec 9>/verif/.work/repo.lock; flock -x 9
cd /repo || exit 2
git diff --quiet || { echo "/repo dirty"; exit 2; }
git apply "$P" || { echo "PATCH DOES NOT APPLY"; exit 2; }
cd /verif
./check $ID --no-evidence "$@" > .work/seed_$ID.log 2>&1; rc=$?
git -C /repo checkout -- .
grep -E "VIOLATION|KNOWN|exit=" .work/seed_$ID.log | cut -c1-300 | head -8
echo "rc=$rc"
