#!/bin/sh
# confirm_seed.sh <worktree> <pkg dir rel> <demo test file in SEED/> <run regexp> [extra pkgs for existing tests]
# Confirms: patch applies; existing tests of pkg pass with it; demo fails with it and passes without.
export PATH=/root/go/pkg/mod/golang.org/toolchain@v0.0.1-go1.26.2.linux-amd64/bin:$PATH GOTOOLCHAIN=local GOFLAGS=-mod=mod GOPROXY=off
WT=$1; PKG=$2; DEMO=$3; RUN=$4; shift 4
cd $WT || exit 2
git checkout -q -- . ; rm -f $PKG/zz_seed_demo_test.go
git apply SEED/patch.diff || { echo "PATCH DOES NOT APPLY"; exit 2; }
go build ./$PKG/... || { echo "BUILD FAILS"; exit 2; }
echo "== existing tests with the change"
go test -vet=off -count=1 ./$PKG/ "$@" 2>&1 | tail -4
cp SEED/$DEMO $PKG/zz_seed_demo_test.go
echo "== demo with the change (must FAIL)"
go test -vet=off -count=1 -run "$RUN" ./$PKG/ 2>&1 | tail -6
git checkout -q -- .
echo "== demo without the change (must PASS)"
go test -vet=off -count=1 -run "$RUN" ./$PKG/ 2>&1 | tail -3
rm -f $PKG/zz_seed_demo_test.go
git status --short | head
