claim("C18",
 "Bounded symbolic model checking of the real identifier codecs: for every value of every field (64-bit heights and indices, 29-byte namespaces; square width up to 2x the protocol maximum) the solver shows constructor-accepted ids are in-square, encode to the fixed size and decode to an equal id with unaltered fields, and for every byte string of length size-1..size+1 the decoder either refuses or yields a valid id whose re-encoding is the input. Tests sample a handful of ids; the wrap-around of a 16-bit field at 65536 is exactly the kind of point they miss and the solver finds.",
 "symbolic execution of go/ssa + SMT (z3 bit-vectors, cvc5 int fallback), all paths per harness, native replay of counterexamples",
 "DESIGN.md 6/C18")

claim("C01",
 "Bounded symbolic model checking of the real verifiers (Sample.Verify, Row.Verify, RangeNamespaceData.VerifyInclusion) together with the real nmt and celestia-app wrapper-tree code, over an ideal commitment model (SHA-256 and the Reed-Solomon codec are injective functions, axiomatised per call). The committed square has symbolic contents; the response is an ARBITRARY value of the container type (share bytes, proof start/end, 0..3 arbitrary proof nodes, axis, side, row count and row lengths). The solver shows: accepted implies the exposed shares are byte-for-byte the committed shares at exactly the requested cell / row / range, and the honest serving-side containers verify. Structural forgeries (re-sliced rows, shifted ranges, borrowed proofs, wrong axis/side) are points of that space; the re-sliced two-row range is one the tests never construct.",
 "symbolic execution of go/ssa (repository + nmt + wrapper) over an Ackermannised ideal hash/codec model, SMT decides acceptance implies equality with the committed data",
 "DESIGN.md 6/C01, 4.1",
 "ODS width 2 (EDS 4x4); shares carry 8 symbolic payload bytes. Not covered: RowNamespaceData (see C02), byte-level protobuf mutations, the hash/erasure libraries themselves.")

claim("C02",
 "Bounded symbolic model checking of NamespaceData.Verify / RowNamespaceData.Verify / RowsWithNamespace and the real nmt VerifyNamespace code over the ideal commitment model: for sorted squares over namespaces A<B<C (symbolic contents), every requested namespace (present in one row, spanning rows, absent inside a row's range, absent outside all ranges) and an ARBITRARY response (0..2 rows, 0..2 shares each with symbolically selected namespace, inclusion/absence/no proof with arbitrary nodes and leaf hash), acceptance implies one entry per row whose range covers the namespace, and Flatten() equal to all committed shares of the namespace in block order - nothing withheld, reordered, duplicated or padded. The honest producer (RowNamespaceDataFromShares) is accepted and complete.",
 "symbolic execution of go/ssa (repository + nmt + wrapper) over the Ackermannised ideal hash/codec model + SMT",
 "DESIGN.md 6/C02, 4.1",
 "ODS width 2. Not covered: the cached-node proof producer (share/ipld, eds/proofs_cache.go).")

claim("C06",
 "Bounded exploration, by symbolic execution of the real getter code, of every fault sequence within the bound: the real shrex getter (GetSamples with its errgroup, GetRow, executeRequest) with up to 3 attempts per request, each attempt's outcome arbitrary (deadline, cancel, NOT_FOUND, resource exhausted, invalid response, other, or a decoded response that does / does not verify), the caller's context ending after any attempt and peer selection failing: every non-empty container in the returned value - with or without an error - verified; success means every requested item; all-NOT_FOUND is reported as shwap.ErrNotFound. RangeNamespaceData.ReadFrom into a reused value equals decoding into a fresh one for all pairs of 1..3-row responses (symbolic proof ranges). The cascade returns the first error-free result and never data next to an error. Fetch does not panic with either block store a node type wires it to (plain store / real EDS-store-backed Blockstore). The real bitswap Getter (GetSamples for 2 coordinates, GetRow) with its session pool, Fetch, hasher and block UnmarshalFn under an exchange that delivers 0..2 blocks per CID, verifying or not, in any order, with the context ending at any point: every returned sample/row came from a block that verified and is for the requested coordinate; success means everything requested.",
 "symbolic execution of go/ssa with fault outcomes as explored decisions (goroutines under the cooperative scheduler); SMT for the symbolic parts (proof ranges, response bytes)",
 "DESIGN.md 6/C06",
 "Client.Get, peer selection and the containers' Verify are models (C01 covers the real verifiers). Not covered: GetEDS/GetNamespaceData/GetRangeNamespaceData flows of the shrex getter beyond the shared executeRequest, real libp2p/bitswap.")

claim("C09",
 "Bounded symbolic model checking of the real shrex stream handler (streamHandler, handleDataRequest, respondStatus, every request id's ReadFrom/Validate/ResponseSize/ResponseReader and the eds bounds-validation wrapper) for all five request types on an ARBITRARY request byte string (size-1..size+1 symbolic bytes), stored square width 2/4/8, block held / not held / store error, failing memory reservation and failing writes: never a panic; the accessor is closed exactly once iff it was obtained; memory is released iff reserved, same non-negative amount; truncated or invalid requests are reset without a status and without touching the store; a height that is not held is answered NOT_FOUND; out-of-bounds coordinates end in an error status and the inner accessor only ever sees in-bounds arguments.",
 "symbolic execution of go/ssa + SMT over arbitrary request bytes; stream/scope/store/accessor are recording models",
 "DESIGN.md 6/C09",
 "Not covered: the client's status mapping (doRequest), rate limiter, real libp2p streams; that the served containers equal the requested data is C01 (honest containers verify) + C05.")

claim("C10",
 "Bounded symbolic model checking of the bitswap identifier/CID mapping with the real go-cid, go-multihash and go-varint code on symbolic bytes: for sample, row and range blocks every constructor-accepted id (all fields symbolic) maps to a CID that decodes back to the same id, and two accepted ids with equal CIDs are equal (injective; this is where the 16-bit range id collided before the fix). For the sample block the real hasher.write is run on an ARBITRARY inner CID byte string (length of the requested CID -1..+1): it succeeds only if the inner CID is byte-for-byte the requested one and the container verdict is positive, the container is verified with the requester's roots and the requested coordinates, the digest is the requested id, and a rejected block leaves the request unfulfilled. The same for the row, row-namespace-data and range blocks (range: inner CID of an arbitrary other valid range id), including a second block for the same CID after a rejected one, which must be verified too.",
 "symbolic execution of go/ssa (repository + go-cid/go-multihash/go-varint) + SMT; envelope/container protobuf decode and Sample.Verify are ideal verdicts",
 "DESIGN.md 6/C10",
 "Not covered: two concurrent fetches of one CID, the serving side's Populate (C05/C09).")

claim("C12",
 "Bounded symbolic model checking of the proof glue the node owns: blob Proof.equal on two arbitrary proofs (0..2 entries, nil entries, 0..2 nodes, symbolic ranges and bytes) answers nil exactly for structurally equal proofs and never panics; GetRangeResult.Verify on arbitrary results (missing proof, 0..3 data entries of 511..513 symbolic bytes) answers nil only when the shares handed out are byte-for-byte the proven data; data-root-tuple proofs for arbitrary 64-bit height/start/end/head pick leaf height-start among exactly end-start leaves whose encoding carries the height in the last 8 of 32 bytes for every 64-bit height. Library proof verification (nmt, merkle, cometbft) is an ideal verdict.",
 "symbolic execution of go/ssa + SMT over arbitrary proof/result values, ideal verdict stubs for library verification, native replay where no stub is involved",
 "DESIGN.md 6/C12",
 "CommitmentProof.Verify on arbitrary proof shapes (0..3 subtree roots, 0..2 subtree-root proofs over share ranges, 0..2 row roots / row proofs, arbitrary 32-bit StartRow/EndRow, real celestia-app RowProof.Validate, nmt.ToLeafRanges and SubTreeWidth; Merkle/NMT verdicts ideal): accepted only if well-formed without 32-bit wrap-around, commitment = hash of all subtree roots, every row root proven under the data root and every subtree root checked once, in order, against its own row. Not covered: Service.Included's derivation of its own proof.")

claim("C04",
 "Bounded model checking of the real DASer coordinator loop and workers executed symbolically under a controlled scheduler: from an arbitrary 64-bit starting height, for every sequence of up to 2 events (new head / checkpoint request), every per-height sampling outcome and every schedule within the delay bound, each checkpoint the coordinator hands out covers every height in [start, head] that was not sampled (as catch-up cursor, failed entry or resumable worker), proven pointwise for a free symbolic height by the solver. The in-flight-recent-job loss needs a checkpoint between two coordinator events, which the existing tests never schedule.",
 "symbolic execution of go/ssa with schedules as decisions (delay-bounded cooperative scheduler) + SMT for the pointwise coverage formula",
 "DESIGN.md 6/C04")

claim("C17",
 "Inductive step, decided by the solver, over the real peer-pool code: from ANY pool state over 3 peers satisfying the representation invariant (symbolic statuses, any list order, symbolic cursor) each operation preserves the invariant, hands out only active peers, never offers a peer on cool-down and keeps the has-peer signal equal to activeCount>0 - so histories of any length do. Plus bounded schedule exploration of the real pool, timed queue and timer callback (2-3 threads, up to 2 scheduling deviations): no deadlock, waiters in next() are woken by add / cool-down expiry and honour cancellation. The AB/BA lock order between pool and queue needs a timer firing between two lock acquisitions - a schedule tests do not force.",
 "symbolic execution of go/ssa: inductive invariant step with SMT, and schedules as decisions (delay-bounded) with deadlock detection",
 "DESIGN.md 6/C17",
 "Not covered: Manager (validation of announced hashes, blacklisting) and libp2p events.")

claim("C14",
 "Bounded symbolic model checking of the real finder and pruning cycle over header chains of 2..5 blocks with arbitrary non-decreasing symbolic timestamps (block time below, at or above the configured estimate), arbitrary positive window, head and last-pruned height anywhere: no header handed to the pruner lies inside the window, the run found is gap-free, a non-full batch leaves out no header older than the window by more than one block time, one cycle terminates for every failure pattern, the checkpoint never moves backwards, and afterwards every old header is pruned or recorded failed.",
 "symbolic execution of go/ssa + SMT over symbolic timestamps (time as 64-bit ns terms), per-call fault outcomes as symbolic booleans",
 "DESIGN.md 6/C14",
 "Not covered: archival Q4-only pruning (store level, see C07/C05), pruneOnHeaderDelete interleaved with a cycle, restart persistence through the real datastore.")

claim("C20",
 "Bounded model checking of the real subscription goroutine under the engine's scheduler: for a feed of 2-3 headers (arbitrary base height), retrieval failing 0..2 times per header, any consumer pace and every schedule within the delay bound, the responses are exactly the fed heights, once each, in order, with the blobs of that height; the stream stays open while nothing ends it; after user cancel, service stop or feed close it is closed promptly (at most 2 further retrieval attempts, also when retrieval fails for ever) after a gap-free prefix; a subscriber a full 16-slot buffer behind is cut off at exactly 16.",
 "symbolic execution of go/ssa with goroutines; schedules, failure counts and end events as explored decisions (delay-bounded scheduler); mostly control nondeterminism, the solver decides the symbolic base height",
 "DESIGN.md 6/C20")

claim("C11",
 "Differential bounded symbolic model checking of the real retrieval loop and share parser against a constructive reference layout: for every namespace run of up to 4 (quick) / 6 (thorough) shares made of padding shares and blobs of 1..3 shares (symbolic 32-bit sequence lengths, share version 0/1), starting at any column of ODS rows of width 2 or 4, listing returns exactly the reference blobs in order with the index of their first share, and fetching by an arbitrary commitment finds the first matching blob iff one is in the block, else ErrBlobNotFound.",
 "symbolic execution of go/ssa + SMT; differential oracle (reference walk); ParseBlobs/CreateCommitment replaced by identity stubs",
 "DESIGN.md 6/C11")

claim("C13",
 "Bounded model checking of the real coordinator/worker code at quiescence: every started job has reported, catch-up-done holds exactly when nothing is queued, in flight or failed (including right after resume), every height is sampled or recorded failed, statistics agree with the ghost record of sampled heights, worker counts respect limit / 2x limit, and the back-off attempt count increases by one with a delay that saturates at the last interval for every attempt count 0..8 and every instant.",
 "symbolic execution of go/ssa with schedules as decisions + SMT; unbounded liveness replaced by bounded quiescence statements",
 "DESIGN.md 6/C13")

claim("C03",
 "Bounded model checking of the real light-availability code (SharesAvailable, selectRandomSamples, the persisted SamplingResult) by symbolic execution: sample coordinates are ARBITRARY symbolic values in range (the random source is a nondeterministic stub), and for two consecutive checks of one block - the second on a fresh instance over the same datastore cell (restart) - with every getter outcome (no result, any subset of positions served, with or without error, cancellation) and failing persistence, the check succeeds only when min(amount, square area) distinct in-square coordinates were each handed back by the getter, the sample set keeps its size and membership, a retry requests exactly the pending coordinates, and no failed/partial/cancelled attempt moves a coordinate to 'sampled'.",
 "symbolic execution of go/ssa + SMT over symbolic coordinates; getter outcomes and persistence faults as explored decisions",
 "DESIGN.md 6/C03",
 "Quick: 2x2 square, amount 2 or 5; thorough: also 4x4 and amounts 1,3. Not covered: uniformity/unpredictability of crypto/rand (probabilistic), concurrent calls for one height (sessions), loss of buffered autobatch writes on crash.")

claim("C16",
 "Bounded symbolic model checking of the repository's header validation glue (ExtendedHeader.Validate, Verify, Hash, MsgID) with every compared field symbolic (64-bit heights, app version, digests) and every cometbft/celestia-app verdict an arbitrary boolean over an ideal injective hash: Validate answers nil exactly when all basic checks pass, the app version is supported, validator set and DAH hash to the committed fields, the commit has this header's height and hash, and VerifyCommitLight was asked about THIS validator set, commit, block id, chain and height; Verify answers nil exactly for a linked adjacent header or a positive trusting verdict of the trusted set over the untrusted commit at 1/3, classifying only 'not enough power' as soft; the gossip id of a decodable message is its commit's block id.",
 "symbolic execution of go/ssa + SMT; library verification functions are ideal verdict stubs that record their operands",
 "DESIGN.md 6/C16",
 "Not covered: binary/JSON re-encoding (generated protobuf and reflection-based tmjson are outside the encoder), the cometbft signature and voting-power arithmetic itself.")

claim("C19",
 "Bounded symbolic model checking of the RPC authorisation path executed from the real code: newHandlerStack, authHandler, verifyAuth, authtoken.ExtractSignedPermissions, RegisterService, the perms sets and go-jsonrpc's real auth.Handler/HasPerm/WithPerm, for EVERY method of every registered module (the `perm` tag table is regenerated from /repo's source on each run) x {no token, token with passing/failing signature check} x ARBITRARY permission subset x no expiry / arbitrary 64-bit expiry instant against an arbitrary current instant x auth on/off x CORS on/off: a method is reached exactly when the credential grants its declared permission; without a token only public methods; failed signature or expiry answers 401 and reaches nothing; auth off grants all; and every method of the sensitive categories (funds, submission, credentials, identity/peers, reconfiguration) declares write or admin.",
 "symbolic execution of go/ssa + SMT (expiry/now as 64-bit symbolic instants, credential class as decisions); reflection-based proxy replaced by a tag table generated from the syntax tree",
 "DESIGN.md 6/C19",
 "go-jsonrpc's reflective PermissionedProxy/dispatch and the JWT/HMAC library are models (ideal verdict); transport, client side not covered.")

claim("C15",
 "Bounded symbolic model checking of the real bridge ingest code: Listener.handleNewBlockEvent / handleNewSignedBlock / storeEDS for every sequence of 2 (quick) / 3 (thorough) block events over 2 heights from 2 sources (duplicates, re-ordering, replayed old height) with one fault per event (fetch, sync status, store put; thorough also store lookup, broadcast), block timestamps and a non-decreasing clock as ARBITRARY symbolic instants, archival/pruned, syncing or not; and full-availability SharesAvailable for every getter outcome x already stored x empty block x store faults x symbolic timestamp. Decided: the square stored under a height is the one built from that height's block and carries the very DAH of the header published / given; a failed ingest stores and publishes nothing and is reported with its error class (not found/deadline -> not available, cancellation, byzantine); a block inside the window is stored with parity and published exactly once; a pruned node never stores (and refuses without fetching) outside the window, an archival node stores there without parity. The boundary (clock crossing the window between two readings) is treated by monotone bounds, not ignored.",
 "symbolic execution of go/ssa + SMT (timestamps/clock as 64-bit symbolic instants, events and faults as decisions); erasure coding, DAH computation and the store are tagged ideal models",
 "DESIGN.md 6/C15",
 "Not covered: MultiSource fan-in goroutines and the listener's subscription/retry loop, the real store (C05/C07), consensus-side consistency of a block with its own data hash (library).")
