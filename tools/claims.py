claim("C18",
 "Bounded symbolic model checking of the real identifier codecs: for every value of every field (64-bit heights and indices, 29-byte namespaces; square width up to 2x the protocol maximum) the solver shows constructor-accepted ids are in-square, encode to the fixed size and decode to an equal id with unaltered fields, and for every byte string of length size-1..size+1 the decoder either refuses or yields a valid id whose re-encoding is the input. Tests sample a handful of ids; the wrap-around of a 16-bit field at 65536 is exactly the kind of point they miss and the solver finds.",
 "symbolic execution of go/ssa + SMT (z3 bit-vectors, cvc5 int fallback), all paths per harness, native replay of counterexamples",
 "DESIGN.md 6/C18")
