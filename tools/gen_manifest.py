#!/usr/bin/env python3
# Regenerates /verif/MANIFEST.json from the table below (kept by hand).
import json, os
props=[json.loads(l) for l in open('/verif/properties.jsonl')]
ids=[p['id'] for p in props]

LEVEL_NOTE=("Trusted base: go/ssa (x/tools v0.50.0) as the semantics of the source, the symgo SSA interpreter and term rewriter "
 "(validated by selftest against native execution), z3 5.1.0 incremental (fall-back on unknown: one-shot z3 4.8.12, then cvc5 1.0 integer encoding). "
 "Harness stubs listed in the evidence 'assumptions'. Everything outside the stated bounds is outside the claim.")

claimed = {
 # id: (text, technique, design_ref)
}
def claim(id, text, technique, ref, note_extra=""):
    claimed[id]=(text,technique,ref,note_extra)

exec(open('/verif/tools/claims.py').read())

na_reasons = {}
exec(open('/verif/tools/not_applicable.py').read())

checks=[]
for i in ids:
    if i in claimed:
        text,tech,ref,extra=claimed[i]
        checks.append({
          "property_id": i,
          "quick_cmd": f"./check {i} --tier quick",
          "thorough_cmd": f"./check {i} --tier thorough",
          "evidence_file": f"/verif/evidence/{i}.json",
          "replay_cmd_template": f"./check {i} --replay {{path}}",
          "engine": "symgo",
          "level_claimed": {"category":"model_checking","text":text,"design_ref":ref},
          "level_note": LEVEL_NOTE+(" "+extra if extra else ""),
          "technique": tech,
        })
na=[{"property_id":i,"reason":na_reasons.get(i,"check not built yet (engine under construction); see DESIGN.md section 6")} for i in ids if i not in claimed]
m={"version":1,
 "setup_cmd":"./setup.sh",
 "hooks":{"guard":"verif","enable":"no source hooks: harness files are injected with go/packages Overlay (symbolic run) and go test -overlay (native replay); nothing is written into /repo","baseline_off_cmd":"cd /repo && PATH=/root/go/pkg/mod/golang.org/toolchain@v0.0.1-go1.26.2.linux-amd64/bin:$PATH GOTOOLCHAIN=local GOFLAGS=-mod=mod GOPROXY=off go test -vet=off -count=1 -timeout 25m ./...","source_commits":[],"add_only":True},
 "engines":[{"name":"symgo","path":"/verif/symgo","serves_properties":sorted(claimed.keys()),"kind_free_text":"bounded symbolic execution of go/ssa built from /repo's working tree on every run; integers/bools are SMT bit-vector terms, paths explored by solver-decided branching, assertions discharged by z3 (cvc5 integer encoding as fall-back); schedules are explored as decisions of a cooperative scheduler"}],
 "checks":checks,
 "not_applicable":na,
 "notes":"See DESIGN.md. Exit codes of ./check: 0 held within bounds, 1 VIOLATION (replayed), 2 inconclusive (never a VIOLATION line). known_findings.json lists open findings (none suppress more than their region) and fixed ones."}
json.dump(m,open('/verif/MANIFEST.json','w'),indent=1)
print("claimed:",sorted(claimed.keys()))
