#!/bin/sh
# seed_regress.sh [seed ids...]: applies every stored seeded change in turn (tools/try_seed.sh), runs the
# owning check in the quick tier and prints one line per seed: "<seed> <check> rc=<exit>" (rc=1 = detected).
cd "$(dirname "$0")/.." || exit 2
seeds=${*:-$(ls seeded | sort)}
for s in $seeds; do
  id=${s%-*}
  [ "$s" = "C01-c" ] && id=C02   # row namespace data belongs to the C02 claim (DESIGN 0.5)
  t0=$(date +%s)
  rc=$(tools/try_seed.sh /verif/seeded/$s/patch.diff $id --first 2>&1 | tail -1)
  echo "$s $id $rc $(( $(date +%s) - t0 ))s"
done
