#!/usr/bin/env python3
# store_seed.py <worktree> <seed id e.g. C14-d> <property> <demo file> <json: breaks,needs,confirmed,detected_by>
import sys, os, shutil, json
wt, sid, prop, demo, meta = sys.argv[1:6]
d = f'/verif/seeded/{sid}'
os.makedirs(d, exist_ok=True)
for f in ('patch.diff', 'notes.md', demo):
    if os.path.exists(f'{wt}/SEED/{f}'):
        shutil.copy(f'{wt}/SEED/{f}', d)
m = {'property': prop}
m.update(json.loads(meta))
m['origin'] = f'independent sub-agent given only the property text (told which earlier mechanisms to avoid), worktree {wt}'
json.dump(m, open(f'{d}/meta.json', 'w'), indent=1)
print('stored', d, os.listdir(d))
