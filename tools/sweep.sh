#!/bin/sh
# sweep.sh [tier]: runs every claimed check once, prints one line per check
cd "$(dirname "$0")/.." || exit 2
mkdir -p .work
tier=${1:-quick}
for id in $(python3 -c "import json;print(' '.join(c['property_id'] for c in json.load(open('MANIFEST.json'))['checks']))"); do
  s=$(date +%s)
  ./check $id --tier $tier $2 > .work/sweep_${tier}_$id.log 2>&1; rc=$?
  echo "$id rc=$rc $(( $(date +%s) - s ))s $(grep -c "^VIOLATION" .work/sweep_${tier}_$id.log) violations $(grep -c "^INCONCLUSIVE" .work/sweep_${tier}_$id.log) inconclusive"
done
