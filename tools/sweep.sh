#!/bin/sh
# sweep.sh [tier] [extra check args]: runs every claimed check once (or those in $IDS), one line per check.
# Each check holds /verif/.work/repo.lock shared; tools/try_seed.sh takes it exclusively.
cd "$(dirname "$0")/.." || exit 2
mkdir -p .work
tier=${1:-quick}
ids=${IDS:-$(python3 -c "import json;print(' '.join(c['property_id'] for c in json.load(open('MANIFEST.json'))['checks']))")}
for id in $ids; do
  s=$(date +%s)
  flock -s .work/repo.lock ./check $id --tier $tier $2 > .work/sweep_${tier}_$id.log 2>&1; rc=$?
  echo "$id rc=$rc $(( $(date +%s) - s ))s $(grep -c "^VIOLATION" .work/sweep_${tier}_$id.log) violations $(grep -c "^INCONCLUSIVE" .work/sweep_${tier}_$id.log) inconclusive"
done
