#!/usr/bin/env python3
# seed_prompt.py <ID> <worktree> [avoid text]: prints the prompt handed to a seeding sub-agent (property text only).
import json, sys
pid, wt = sys.argv[1], sys.argv[2]
avoid = sys.argv[3] if len(sys.argv) > 3 else ""
for l in open('/verif/properties.jsonl'):
    d = json.loads(l)
    if d['id'] == pid:
        t = open('/verif/tools/seed_prompt.txt').read()
        print(t.replace('{WT}', wt).replace('{TITLE}', d['title']).replace('{STATEMENT}', d['statement'])
              .replace('{QUANT}', d['quantifier']['text']).replace('{FILES}', ', '.join(d['anchors']['files']))
              .replace('{AVOID}', avoid))
