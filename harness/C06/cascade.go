//verif:overlay share/shwap/getters/zz_verif_c06_cascade.go
//verif:bound cascade getter: 1..3 getters, each with an arbitrary outcome: success, not supported, error, error with a partial (unverified) value, or the caller's context ending
//verif:assume member getters are models returning tagged values
package getters

import (
	"context"
	"errors"

	libshare "github.com/celestiaorg/go-square/v4/share"
	"github.com/celestiaorg/nmt"
	"github.com/celestiaorg/rsmt2d"

	"github.com/celestiaorg/celestia-app/v9/pkg/da"

	"github.com/celestiaorg/celestia-node/header"
	"github.com/celestiaorg/celestia-node/share/shwap"
	nd "github.com/celestiaorg/celestia-node/verifnd"
)

type verifGetter struct {
	id      int
	outcome int // 0 ok, 1 not supported, 2 error, 3 error + partial value, 4 ctx ends + error
	cancel  context.CancelFunc
	called  *[]int
}

func (g *verifGetter) sample(verified bool) shwap.Sample {
	raw := make([]byte, libshare.ShareSize)
	copy(raw, libshare.MustNewV0Namespace([]byte("c06")).Bytes())
	raw[libshare.NamespaceSize] = byte(g.id)
	if verified {
		raw[libshare.NamespaceSize+1] = 1
	}
	sh, _ := libshare.NewShare(raw)
	p := nmt.NewInclusionProof(0, 1, nil, true)
	return shwap.Sample{Share: sh, Proof: &p}
}

func (g *verifGetter) GetSamples(ctx context.Context, h *header.ExtendedHeader, idx []shwap.SampleCoords) ([]shwap.Sample, error) {
	*g.called = append(*g.called, g.id)
	switch g.outcome {
	case 0:
		return []shwap.Sample{g.sample(true)}, nil
	case 1:
		return nil, shwap.ErrOperationNotSupported
	case 2:
		return nil, errors.New("getter failed")
	case 3:
		return []shwap.Sample{g.sample(false)}, errors.New("getter failed half way")
	}
	g.cancel()
	return nil, ctx.Err()
}
func (g *verifGetter) GetEDS(context.Context, *header.ExtendedHeader) (*rsmt2d.ExtendedDataSquare, error) {
	return nil, shwap.ErrOperationNotSupported
}
func (g *verifGetter) GetRow(context.Context, *header.ExtendedHeader, int) (shwap.Row, error) {
	return shwap.Row{}, shwap.ErrOperationNotSupported
}
func (g *verifGetter) GetNamespaceData(context.Context, *header.ExtendedHeader, libshare.Namespace) (shwap.NamespaceData, error) {
	return nil, shwap.ErrOperationNotSupported
}
func (g *verifGetter) GetRangeNamespaceData(context.Context, *header.ExtendedHeader, int, int) (shwap.RangeNamespaceData, error) {
	return shwap.RangeNamespaceData{}, shwap.ErrOperationNotSupported
}

// The cascade returns the first error-free result and otherwise an error with
// NO data: a member getter's partial, unverified value never leaks through.
//
//verif:opts nopanic nodeadlock noreplay cover=success,failed,partialdropped
func VerifH_C06_CascadeDropsPartialResults() {
	ctx, cancel := context.WithCancel(context.Background())
	defer cancel()
	n := 1 + nd.Choice(3, "getters")
	var called []int
	gs := make([]shwap.Getter, n)
	outcomes := make([]int, n)
	for i := range gs {
		outcomes[i] = nd.Choice(5, "outcome")
		gs[i] = &verifGetter{id: i + 1, outcome: outcomes[i], cancel: cancel, called: &called}
	}
	cg := NewCascadeGetter(gs)
	eh := &header.ExtendedHeader{DAH: &da.DataAvailabilityHeader{}}
	eh.RawHeader.Height = 3
	res, err := cg.GetSamples(ctx, eh, []shwap.SampleCoords{{Row: 0, Col: 0}})

	// reference: walk the getters in order
	want := -1
	for i, o := range outcomes {
		if o == 0 {
			want = i
			break
		}
		if o == 4 {
			break
		}
	}
	sawPartial := false
	for i, o := range outcomes {
		if want >= 0 && i >= want {
			break
		}
		if o == 3 {
			sawPartial = true
		}
		if o == 4 {
			break
		}
	}
	if err == nil {
		nd.Cover("success")
		nd.Assert(want >= 0, "success-only-if-some-getter-succeeded")
		nd.Assert(len(res) == 1 && int(res[0].Share.ToBytes()[libshare.NamespaceSize]) == want+1, "first-error-free-result")
		nd.Assert(res[0].Share.ToBytes()[libshare.NamespaceSize+1] == 1, "only-verified-data")
		return
	}
	nd.Cover("failed")
	nd.Assert(want < 0, "a-succeeding-getter-is-reached")
	nd.Assert(len(res) == 0, "an-error-comes-with-no-data")
	if sawPartial {
		nd.Cover("partialdropped")
	}
}
