//verif:overlay share/shwap/zz_verif_c06_readfrom.go
//verif:replace (*github.com/celestiaorg/celestia-node/share/shwap.RowNamespaceData).ReadFrom github.com/celestiaorg/celestia-node/share/shwap.verifRowRead
//verif:bound response buffer reuse: RangeNamespaceData.ReadFrom called on the same value for two consecutive responses of 1..3 rows each (rows with or without proofs), compared with decoding the second response into a fresh value
//verif:assume the per-row protobuf decoding (RowNamespaceData.ReadFrom) is a model that pops the next row of the simulated stream
package shwap

import (
	"bytes"
	"io"

	libshare "github.com/celestiaorg/go-square/v4/share"
	"github.com/celestiaorg/nmt"

	nd "github.com/celestiaorg/celestia-node/verifnd"
)

var (
	verifStreamRows   []RowNamespaceData
	verifStreamBreaks bool // the stream fails (not EOF) after its first row
	verifRowsRead     int
)

func verifRowRead(rnd *RowNamespaceData, r io.Reader) (int64, error) {
	if verifStreamBreaks && len(verifStreamRows) == 0 {
		return 0, io.ErrUnexpectedEOF
	}
	if len(verifStreamRows) == 0 {
		return 0, io.EOF
	}
	*rnd = verifStreamRows[0]
	verifStreamRows = verifStreamRows[1:]
	return 1, nil
}

func verifArbRows(tag string) []RowNamespaceData {
	n := 1 + nd.Choice(3, tag+".rows")
	rows := make([]RowNamespaceData, n)
	for i := range rows {
		raw := make([]byte, libshare.ShareSize)
		copy(raw, libshare.MustNewV0Namespace([]byte("c06")).Bytes())
		raw[libshare.NamespaceSize] = nd.U8(tag + ".byte")
		sh, _ := libshare.NewShare(raw)
		rows[i].Shares = []libshare.Share{sh}
		if nd.Choice(2, tag+".proof") == 1 {
			p := nmt.NewInclusionProof(nd.Int(tag+".start"), nd.Int(tag+".end"), nil, true)
			rows[i].Proof = &p
		}
	}
	return rows
}

func verifSameProof(a, b *nmt.Proof) bool {
	if a == nil || b == nil {
		return a == nil && b == nil
	}
	return a.Start() == b.Start() && a.End() == b.End()
}

// A response decoded into a value that already holds an earlier (possibly bad)
// response equals the same response decoded into a fresh value: nothing of
// the earlier response survives.
//
//verif:opts nopanic cover=compared
func VerifH_C06_ReusedRangeBufferIsNotPoisoned() {
	first := verifArbRows("first")
	second := verifArbRows("second")

	var reused RangeNamespaceData
	verifStreamRows = append([]RowNamespaceData(nil), first...)
	_, err := reused.ReadFrom(bytes.NewReader(nil))
	nd.Assert(err == nil, "first-decodes")
	verifStreamRows = append([]RowNamespaceData(nil), second...)
	_, err = reused.ReadFrom(bytes.NewReader(nil))
	nd.Assert(err == nil, "second-decodes")

	var fresh RangeNamespaceData
	verifStreamRows = append([]RowNamespaceData(nil), second...)
	_, err = fresh.ReadFrom(bytes.NewReader(nil))
	nd.Assert(err == nil, "fresh-decodes")

	nd.Cover("compared")
	nd.Assert(len(reused.Shares) == len(fresh.Shares), "same-rows")
	nd.Assert(verifSameProof(reused.FirstIncompleteRowProof, fresh.FirstIncompleteRowProof), "first-row-proof-is-the-new-responses")
	nd.Assert(verifSameProof(reused.LastIncompleteRowProof, fresh.LastIncompleteRowProof), "last-row-proof-is-the-new-responses")
}

// The same for NamespaceData (the shrex getter decodes every attempt of
// GetNamespaceData into one value): after an earlier response - complete, or
// cut off by a stream error after some rows - a later response decodes to
// exactly its own rows.
//
//verif:opts nopanic cover=compared,after-broken-stream
func VerifH_C06_ReusedNamespaceDataBufferIsNotPoisoned() {
	first := verifArbRows("first")
	second := verifArbRows("second")

	var reused NamespaceData
	verifStreamRows = append([]RowNamespaceData(nil), first...)
	verifStreamBreaks = nd.Choice(2, "firstStreamBreaks") == 1
	_, err := reused.ReadFrom(bytes.NewReader(nil))
	if verifStreamBreaks {
		nd.Cover("after-broken-stream")
		nd.Assert(err != nil, "broken-stream-is-an-error")
	} else {
		nd.Assert(err == nil, "first-decodes")
	}
	verifStreamBreaks = false
	verifStreamRows = append([]RowNamespaceData(nil), second...)
	_, err = reused.ReadFrom(bytes.NewReader(nil))
	nd.Assert(err == nil, "second-decodes")

	nd.Cover("compared")
	nd.Assert(len(reused) == len(second), "later-response-decodes-to-exactly-its-own-rows")
	for i := range second {
		if i < len(reused) {
			nd.Assert(nd.EqBytes(reused[i].Shares[0].ToBytes(), second[i].Shares[0].ToBytes()) && verifSameProof(reused[i].Proof, second[i].Proof), "later-response-decodes-to-exactly-its-own-rows")
		}
	}
}
