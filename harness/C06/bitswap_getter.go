//verif:overlay share/shwap/p2p/bitswap/zz_verif_c06_bitswap.go
//verif:pkgs github.com/ipfs/go-block-format github.com/ipfs/go-cid github.com/multiformats/go-multihash github.com/multiformats/go-multihash/core github.com/multiformats/go-varint
//verif:bound bitswap fetch: 1 requested sample block; the exchange delivers the block, nothing (context ends) or fails; the block store passed with WithStore is either a plain in-memory model (light node wiring) or the REAL bitswap.Blockstore over a model accessor getter (bridge node wiring, nodebuilder/share/bitswap.go)
//verif:assume the exchange is a model that hands back a block carrying the requested CID; verification of the block happens in the hasher (C10) and is not repeated here
package bitswap

import (
	"context"
	"errors"

	"github.com/ipfs/boxo/blockstore"
	blocks "github.com/ipfs/go-block-format"
	"github.com/ipfs/go-cid"

	"github.com/celestiaorg/celestia-node/share"
	"github.com/celestiaorg/celestia-node/share/eds"
	"github.com/celestiaorg/celestia-node/share/shwap"
	"github.com/celestiaorg/celestia-node/store"
	nd "github.com/celestiaorg/celestia-node/verifnd"
)

type verifExchange struct {
	outcome int // 0 deliver, 1 nothing, 2 error
	cancel  context.CancelFunc
}

func (e *verifExchange) GetBlock(context.Context, cid.Cid) (blocks.Block, error) {
	return nil, errors.New("unused")
}
func (e *verifExchange) GetBlocks(ctx context.Context, cids []cid.Cid) (<-chan blocks.Block, error) {
	if e.outcome == 2 {
		return nil, errors.New("exchange: failed")
	}
	ch := make(chan blocks.Block, len(cids))
	if e.outcome == 0 {
		for _, c := range cids {
			b, _ := blocks.NewBlockWithCid([]byte{1, 2, 3}, c)
			ch <- b
		}
	} else {
		e.cancel()
	}
	close(ch)
	return ch, nil
}
func (e *verifExchange) NotifyNewBlocks(context.Context, ...blocks.Block) error { return nil }
func (e *verifExchange) Close() error                                           { return nil }

type verifMemStore struct {
	blockstore.Blockstore
	puts int
}

func (s *verifMemStore) Put(context.Context, blocks.Block) error { s.puts++; return nil }

type verifAccGetter struct{}

func (verifAccGetter) GetByHeight(context.Context, uint64) (eds.AccessorStreamer, error) {
	return nil, store.ErrNotFound
}
func (verifAccGetter) HasByHeight(context.Context, uint64) (bool, error) { return false, nil }

// A retrieval through Fetch ends with a result or an error - never a panic -
// whichever block store the node type wires the getter to.
//
//verif:opts nopanic nodeadlock noreplay cover=light,bridge,delivered
func VerifH_C06_FetchNeverPanicsWithAnyWiredStore() {
	ctx, cancel := context.WithCancel(context.Background())
	defer cancel()
	blk, err := NewEmptySampleBlock(5, shwap.SampleCoords{Row: 1, Col: 1}, 4)
	nd.Assume(err == nil)
	ex := &verifExchange{outcome: nd.Choice(3, "exchange"), cancel: cancel}
	var bs blockstore.Blockstore
	if nd.Choice(2, "wiring") == 0 {
		nd.Cover("light")
		bs = &verifMemStore{}
	} else {
		nd.Cover("bridge")
		bs = &Blockstore{Getter: verifAccGetter{}}
	}
	root := &share.AxisRoots{RowRoots: make([][]byte, 4), ColumnRoots: make([][]byte, 4)}
	ferr := Fetch(ctx, ex, root, []Block{blk}, WithStore(bs))
	if ex.outcome == 0 {
		nd.Cover("delivered")
		nd.Assert(ferr == nil, "delivered-block-is-not-an-error")
	} else {
		nd.Assert(ferr != nil, "nothing-delivered-is-an-error")
	}
}
