//verif:overlay share/shwap/p2p/shrex/peers/zz_verif_c06_hook.go
package peers

// VerifNoopDone returns a DoneFunc that ignores the request outcome (harness
// only; injected by overlay, never written to the repository).
func VerifNoopDone() DoneFunc { return func(result) {} }
