//verif:overlay share/shwap/p2p/shrex/shrex_getter/zz_verif_c06.go
//verif:pkgs ./share/shwap ./share/shwap/p2p/shrex ./share ./libs/utils ./header ./share/availability github.com/celestiaorg/go-square/v4/share github.com/celestiaorg/nmt golang.org/x/sync/errgroup
//verif:replace (*github.com/celestiaorg/celestia-node/share/shwap/p2p/shrex.Client).Get github.com/celestiaorg/celestia-node/share/shwap/p2p/shrex/shrex_getter.verifClientGet
//verif:replace (*github.com/celestiaorg/celestia-node/share/shwap/p2p/shrex/shrex_getter.Getter).getPeer github.com/celestiaorg/celestia-node/share/shwap/p2p/shrex/shrex_getter.verifGetPeer
//verif:replace (github.com/celestiaorg/celestia-node/share/shwap.Sample).Verify github.com/celestiaorg/celestia-node/share/shwap/p2p/shrex/shrex_getter.verifSampleVerify
//verif:replace (*github.com/celestiaorg/celestia-node/share/shwap.Row).Verify github.com/celestiaorg/celestia-node/share/shwap/p2p/shrex/shrex_getter.verifRowVerify
//verif:replace (github.com/celestiaorg/celestia-node/share/shwap.NamespaceData).Verify github.com/celestiaorg/celestia-node/share/shwap/p2p/shrex/shrex_getter.verifNDVerify
//verif:replace (*github.com/celestiaorg/celestia-node/share/shwap.RangeNamespaceData).VerifyInclusion github.com/celestiaorg/celestia-node/share/shwap/p2p/shrex/shrex_getter.verifRangeVerify
//verif:replace github.com/celestiaorg/celestia-node/share/eds.ReadAccessor github.com/celestiaorg/celestia-node/share/shwap/p2p/shrex/shrex_getter.verifReadAccessor
//verif:replace context.WithTimeout github.com/celestiaorg/celestia-node/share/shwap/p2p/shrex/shrex_getter.verifWithTimeout
//verif:replace (*github.com/celestiaorg/celestia-app/v9/pkg/da.DataAvailabilityHeader).Equals github.com/celestiaorg/celestia-node/share/shwap/p2p/shrex/shrex_getter.verifDAHEquals
//verif:noop github.com/celestiaorg/celestia-app/v9/pkg/da
//verif:bound shrex getter: 1..2 requested sample coordinates / one row; per request up to 3 attempts, each attempt's outcome arbitrary: deadline, cancel, NOT_FOUND, resource exhausted, invalid response, other error, or a decoded response that is either the committed data (verifies) or something else (does not verify); the caller's context may end after any attempt; no peer available at any attempt
//verif:assume shrex.Client.Get, peer selection and the containers' Verify are models: a decoded response is written into the caller's response value the way ReadFrom does, tagged "is the committed data" (first payload byte 1) or not; Verify answers exactly that tag (C01 covers the real verifiers)
//verif:outside real libp2p streams and peer managers
package shrex_getter

import (
	"bytes"
	"context"
	"errors"
	"fmt"
	"io"
	"time"

	libpeer "github.com/libp2p/go-libp2p/core/peer"

	"github.com/celestiaorg/celestia-app/v9/pkg/da"
	libshare "github.com/celestiaorg/go-square/v4/share"
	"github.com/celestiaorg/nmt"
	"github.com/celestiaorg/rsmt2d"

	"github.com/celestiaorg/celestia-node/header"
	"github.com/celestiaorg/celestia-node/share"
	"github.com/celestiaorg/celestia-node/share/eds"
	"github.com/celestiaorg/celestia-node/share/shwap"
	"github.com/celestiaorg/celestia-node/share/shwap/p2p/shrex"
	"github.com/celestiaorg/celestia-node/share/shwap/p2p/shrex/peers"
	nd "github.com/celestiaorg/celestia-node/verifnd"
)

type verifEnv struct {
	attempts   int
	cancel     context.CancelFunc
	allowNoPeer bool
	onlyNotFound bool
	sawNotFound bool
	sawOther    bool

	goodDelivered bool
}

var verifE *verifEnv

func verifWithTimeout(ctx context.Context, d time.Duration) (context.Context, context.CancelFunc) {
	return context.WithCancel(ctx)
}

func verifDAHEquals(a, b *da.DataAvailabilityHeader) bool { return false }

func verifGetPeer(sg *Getter, ctx context.Context, h *header.ExtendedHeader) (libpeer.ID, peers.DoneFunc, error) {
	if verifE.allowNoPeer && nd.Bool("noPeer") {
		return "", nil, errors.New("no peer: context ended while waiting")
	}
	return "peerX", peers.VerifNoopDone(), nil
}

func verifShare(good bool) libshare.Share {
	raw := make([]byte, libshare.ShareSize)
	copy(raw, libshare.MustNewV0Namespace([]byte("c06")).Bytes())
	if good {
		raw[libshare.NamespaceSize] = 1
	}
	sh, _ := libshare.NewShare(raw)
	return sh
}

func verifIsGood(sh libshare.Share) bool { return sh.ToBytes()[libshare.NamespaceSize] == 1 }

// one attempt: any outcome
func verifClientGet(c *shrex.Client, ctx context.Context, req any, resp any, peer libpeer.ID) error {
	e := verifE
	e.attempts++
	if e.attempts >= 3 {
		// bound: the caller's context ends at the latest after the third attempt
		e.cancel()
	} else if nd.Bool("ctxEnds") {
		e.cancel()
	}
	n := 8
	if e.onlyNotFound {
		n = 1
	}
	switch nd.Choice(n, "attempt") {
	case 0:
		e.sawNotFound = true
		return fmt.Errorf("peer says: %w", shrex.ErrNotFound)
	case 1:
		e.sawOther = true
		return context.DeadlineExceeded
	case 2:
		e.sawOther = true
		return context.Canceled
	case 3:
		e.sawOther = true
		return shrex.ErrResourceExhausted
	case 4:
		e.sawOther = true
		return shrex.ErrInvalidResponse
	case 5:
		e.sawOther = true
		// a transfer that breaks after part of the payload: for a streamed
		// square the bytes received so far are in the caller's buffer
		if b, ok := resp.(*bytes.Buffer); ok && nd.Choice(2, "partialBytes") == 1 {
			b.Write([]byte{0})
		}
		return errors.New("stream reset")
	}
	good := nd.Choice(2, "responseIsCommittedData") == 1
	if good {
		e.goodDelivered = true // an honest answer reached the getter
	}
	e.sawOther = true
	p := nmt.NewInclusionProof(0, 1, nil, true)
	switch r := resp.(type) {
	case *shwap.Sample:
		*r = shwap.Sample{Share: verifShare(good), Proof: &p}
	case *shwap.Row:
		*r = shwap.NewRow([]libshare.Share{verifShare(good), verifShare(good)}, shwap.Both)
	case *shwap.NamespaceData:
		*r = shwap.NamespaceData{{Shares: []libshare.Share{verifShare(good)}, Proof: &p}}
	case *shwap.RangeNamespaceData:
		*r = shwap.RangeNamespaceData{Shares: [][]libshare.Share{{verifShare(good)}}}
	case *bytes.Buffer:
		b := byte(0)
		if good {
			b = 1
		}
		r.Write([]byte{b})
	default:
		return errors.New("stub: unexpected response type")
	}
	return nil
}

func verifSampleVerify(s shwap.Sample, roots *share.AxisRoots, row, col int) error {
	if verifIsGood(s.Share) {
		return nil
	}
	return shwap.ErrFailedVerification
}

func verifRowVerify(r *shwap.Row, roots *share.AxisRoots, idx int) error {
	shs, _ := r.Shares()
	if len(shs) > 0 && verifIsGood(shs[0]) {
		return nil
	}
	return shwap.ErrFailedVerification
}

func verifNDVerify(d shwap.NamespaceData, roots *share.AxisRoots, ns libshare.Namespace) error {
	if len(d) > 0 && len(d[0].Shares) > 0 && verifIsGood(d[0].Shares[0]) {
		return nil
	}
	return shwap.ErrFailedVerification
}

func verifRangeVerify(r *shwap.RangeNamespaceData, from, to shwap.SampleCoords, odsSize int, roots [][]byte) error {
	if len(r.Shares) > 0 && len(r.Shares[0]) > 0 && verifIsGood(r.Shares[0][0]) {
		return nil
	}
	return shwap.ErrFailedVerification
}

var verifGoodSquare = new(rsmt2d.ExtendedDataSquare)

func verifReadAccessor(ctx context.Context, r io.Reader, roots *share.AxisRoots) (*eds.Rsmt2D, error) {
	var b [1]byte
	if _, err := io.ReadFull(r, b[:]); err != nil {
		return nil, err
	}
	if b[0] == 1 {
		return &eds.Rsmt2D{ExtendedDataSquare: verifGoodSquare}, nil
	}
	return nil, shwap.ErrFailedVerification
}

func verifHeaderAndGetter() (*Getter, *header.ExtendedHeader, context.Context) {
	roots := make([][]byte, 4)
	for i := range roots {
		roots[i] = make([]byte, 90)
		for j := libshare.NamespaceSize; j < 2*libshare.NamespaceSize; j++ {
			roots[i][j] = 0xFF // every namespace lies inside the row's range
		}
	}
	eh := &header.ExtendedHeader{DAH: &da.DataAvailabilityHeader{RowRoots: roots, ColumnRoots: roots}}
	eh.RawHeader.Height = 7
	eh.RawHeader.Time = time.Now()
	ctx, cancel := context.WithCancel(context.Background())
	verifE = &verifEnv{cancel: cancel}
	sg := &Getter{minRequestTimeout: time.Second, minAttemptsCount: 3, availabilityWindow: 1 << 62}
	return sg, eh, ctx
}

// Whatever GetSamples returns - with or without an error - every non-empty
// sample in it was verified; success means every requested sample is there.
//
//verif:opts nopanic nodeadlock noreplay preempt=0 threads=12 cover=success,failed,partial
func VerifH_C06_GetSamplesOnlyVerified() {
	sg, eh, ctx := verifHeaderAndGetter()
	verifE.allowNoPeer = true
	n := 1 + nd.Choice(2, "coords")
	coords := make([]shwap.SampleCoords, n)
	for i := range coords {
		coords[i] = shwap.SampleCoords{Row: i, Col: 1}
	}
	samples, err := sg.GetSamples(ctx, eh, coords)
	nonEmpty := 0
	for _, s := range samples {
		if !s.IsEmpty() {
			nonEmpty++
			nd.Assert(verifIsGood(s.Share), "only-verified-samples-are-handed-back")
		}
	}
	if err == nil {
		nd.Cover("success")
		nd.Assert(len(samples) == n && nonEmpty == n, "success-means-every-sample")
	} else {
		nd.Cover("failed")
		if nonEmpty > 0 {
			nd.Cover("partial")
		}
	}
}

// GetRow hands back a row only if it verified; an error comes with nothing.
//
//verif:opts nopanic nodeadlock noreplay preempt=0 threads=8 cover=success,failed
func VerifH_C06_GetRowOnlyVerified() {
	sg, eh, ctx := verifHeaderAndGetter()
	verifE.allowNoPeer = true
	row, err := sg.GetRow(ctx, eh, 1)
	if err != nil {
		nd.Cover("failed")
		nd.Assert(row.IsEmpty(), "error-comes-with-no-data")
		nd.Assert(!verifE.goodDelivered, "an-honest-answer-is-not-spoilt-by-earlier-bad-ones")
		return
	}
	nd.Cover("success")
	shs, _ := row.Shares()
	nd.Assert(len(shs) > 0 && verifIsGood(shs[0]), "only-a-verified-row-is-handed-back")
}

// When every peer answers "not found", the caller gets not-found - never
// success and never a different failure.
//
//verif:opts nopanic nodeadlock noreplay preempt=0 threads=8 cover=notfound
func VerifH_C06_NotFoundIsReportedAsNotFound() {
	sg, eh, ctx := verifHeaderAndGetter()
	verifE.onlyNotFound = true
	_, err := sg.GetRow(ctx, eh, 1)
	nd.Cover("notfound")
	nd.Assert(err != nil, "not-found-is-not-success")
	nd.Assert(errors.Is(err, shwap.ErrNotFound), "not-found-is-reported-as-not-found")
}

// Namespace data, a share range and a whole square are handed back only if the
// response that filled them verified; an error comes with nothing; all-NOT_FOUND
// is not-found.
//
//verif:opts nopanic nodeadlock noreplay preempt=0 threads=8 cover=nd-ok,nd-failed,range-ok,range-failed,eds-ok,eds-failed,notfound
func VerifH_C06_OtherRequestTypesOnlyVerified() {
	sg, eh, ctx := verifHeaderAndGetter()
	verifE.allowNoPeer = true
	verifE.onlyNotFound = nd.Choice(2, "onlyNotFound") == 1
	ns := libshare.MustNewV0Namespace([]byte("c06"))
	switch nd.Choice(3, "requestType") {
	case 0:
		d, err := sg.GetNamespaceData(ctx, eh, ns)
		if err != nil {
			nd.Cover("nd-failed")
			nd.Assert(!verifE.goodDelivered, "an-honest-answer-is-not-spoilt-by-earlier-bad-ones")
			nd.Assert(len(d) == 0, "error-comes-with-no-data")
			if verifE.onlyNotFound && verifE.attempts > 0 {
				nd.Cover("notfound")
				nd.Assert(errors.Is(err, shwap.ErrNotFound), "not-found-is-reported-as-not-found")
			}
			return
		}
		nd.Cover("nd-ok")
		nd.Assert(len(d) == 1 && verifIsGood(d[0].Shares[0]), "only-verified-namespace-data-is-handed-back")
	case 1:
		r, err := sg.GetRangeNamespaceData(ctx, eh, 0, 2)
		if err != nil {
			nd.Cover("range-failed")
			nd.Assert(!verifE.goodDelivered, "an-honest-answer-is-not-spoilt-by-earlier-bad-ones")
			nd.Assert(r.IsEmpty(), "error-comes-with-no-data")
			if verifE.onlyNotFound && verifE.attempts > 0 {
				nd.Assert(errors.Is(err, shwap.ErrNotFound), "not-found-is-reported-as-not-found")
			}
			return
		}
		nd.Cover("range-ok")
		nd.Assert(len(r.Shares) == 1 && verifIsGood(r.Shares[0][0]), "only-a-verified-range-is-handed-back")
	case 2:
		sq, err := sg.GetEDS(ctx, eh)
		if err != nil {
			nd.Cover("eds-failed")
			nd.Assert(!verifE.goodDelivered, "an-honest-answer-is-not-spoilt-by-earlier-bad-ones")
			nd.Assert(sq == nil, "error-comes-with-no-data")
			if verifE.onlyNotFound && verifE.attempts > 0 {
				nd.Assert(errors.Is(err, shwap.ErrNotFound), "not-found-is-reported-as-not-found")
			}
			return
		}
		nd.Cover("eds-ok")
		nd.Assert(sq == verifGoodSquare, "only-a-verified-square-is-handed-back")
	}
}
