//verif:overlay share/shwap/p2p/shrex/peers/zz_verif_c17_manager.go
//verif:pkgs github.com/benbjohnson/clock ./share ./header github.com/hashicorp/golang-lru/v2 github.com/hashicorp/golang-lru/v2/simplelru github.com/hashicorp/golang-lru/v2/internal
//verif:init github.com/celestiaorg/celestia-node/share/shwap/p2p/shrex/peers
//verif:replace (*github.com/libp2p/go-libp2p/p2p/net/conngater.BasicConnectionGater).BlockPeer github.com/celestiaorg/celestia-node/share/shwap/p2p/shrex/peers.verifBlockPeer
//verif:replace (*github.com/libp2p/go-libp2p/p2p/net/conngater.BasicConnectionGater).InterceptPeerDial github.com/celestiaorg/celestia-node/share/shwap/p2p/shrex/peers.verifInterceptPeerDial
//verif:replace (*github.com/celestiaorg/celestia-app/v9/pkg/da.DataAvailabilityHeader).Hash github.com/celestiaorg/celestia-node/share/shwap/p2p/shrex/peers.verifMgrDAHHash
//verif:replace (github.com/cometbft/cometbft/libs/bytes.HexBytes).String github.com/celestiaorg/celestia-node/share/shwap/p2p/shrex/peers.verifHexString
//verif:noop github.com/ipfs/go-log/v2 go.uber.org/zap github.com/celestiaorg/celestia-app/v9/pkg/da
//verif:bound peer manager: 3-4 peers, two data hashes at two heights; history: shrex-sub notifications before and after the header that confirms a hash (or without one), a discovered node, a peer request, a request result (no-op / cool-down / blacklist), a garbage-collection pass with an arbitrary symbolic age of the unconfirmed pool against the validation timeout; blacklisting enabled or not
//verif:assume the libp2p host and connection gater are recording models (a blocked peer fails InterceptPeerDial); header subscription delivers the chosen headers; cool-down expiry is the pool's subject (inductive step of the C17 base group) and is not asserted here
package peers

import (
	"context"
	"errors"
	"time"

	libhead "github.com/celestiaorg/go-header"
	cmtbytes "github.com/cometbft/cometbft/libs/bytes"
	pubsub "github.com/libp2p/go-libp2p-pubsub"
	"github.com/libp2p/go-libp2p/core/host"
	"github.com/libp2p/go-libp2p/core/network"
	"github.com/libp2p/go-libp2p/core/peer"
	"github.com/libp2p/go-libp2p/p2p/net/conngater"

	"github.com/celestiaorg/celestia-app/v9/pkg/da"

	"github.com/celestiaorg/celestia-node/header"
	"github.com/celestiaorg/celestia-node/share"
	"github.com/celestiaorg/celestia-node/share/shwap/p2p/shrex/shrexsub"
	nd "github.com/celestiaorg/celestia-node/verifnd"
)

var (
	verifBlocked map[peer.ID]bool
	verifClosed  map[peer.ID]bool
)

func verifBlockPeer(g *conngater.BasicConnectionGater, p peer.ID) error {
	verifBlocked[p] = true
	return nil
}
func verifInterceptPeerDial(g *conngater.BasicConnectionGater, p peer.ID) bool {
	return !verifBlocked[p]
}
func verifMgrDAHHash(d *da.DataAvailabilityHeader) []byte { return nil }

// cometbft's HexBytes prints as upper-case hex, like share.DataHash
func verifHexString(b cmtbytes.HexBytes) string { return share.DataHash(b).String() }

type verifNet struct{ network.Network }

func (verifNet) ClosePeer(p peer.ID) error { verifClosed[p] = true; return nil }

type verifHost struct{ host.Host }

func (verifHost) ID() peer.ID              { return "self" }
func (verifHost) Network() network.Network { return verifNet{} }

type verifHeaderSub struct {
	ch chan *header.ExtendedHeader
}

func (s *verifHeaderSub) NextHeader(ctx context.Context) (*header.ExtendedHeader, error) {
	select {
	case h, ok := <-s.ch:
		if !ok {
			<-ctx.Done()
			return nil, ctx.Err()
		}
		return h, nil
	case <-ctx.Done():
		return nil, ctx.Err()
	}
}
func (s *verifHeaderSub) Cancel() {}

var _ libhead.Subscription[*header.ExtendedHeader] = (*verifHeaderSub)(nil)

func verifHash(tag byte) share.DataHash {
	h := make([]byte, 32)
	h[0] = tag
	return h
}

func verifEH(hash share.DataHash, height int64) *header.ExtendedHeader {
	eh := &header.ExtendedHeader{DAH: &da.DataAvailabilityHeader{}}
	eh.RawHeader.Height = height
	eh.RawHeader.DataHash = []byte(hash)
	return eh
}

// Peers that only announced an unconfirmed hash stay out of the general pool
// until a header confirms it; a blacklisted peer (blacklisting on) is never
// offered, never re-admitted and its announcements are rejected; an
// unconfirmed pool that outlives the validation timeout takes its hash and its
// peers onto the blacklist, a confirmed or young one does not.
//
//verif:opts nopanic nodeadlock noreplay preempt=0 threads=8 cover=unconfirmed,confirmed,blacklisted,gc-expired,gc-kept,offered
func VerifH_C17_ManagerPromotesAndBlacklistsCorrectly() {
	verifBlocked, verifClosed = map[peer.ID]bool{}, map[peer.ID]bool{}
	enable := nd.Bool("enableBlacklisting")
	m, err := NewManager(Parameters{PoolValidationTimeout: time.Minute, PeerCooldown: time.Hour, GcInterval: time.Hour, EnableBlackListing: enable},
		verifHost{}, &conngater.BasicConnectionGater{}, "tag")
	nd.Assert(err == nil, "manager")
	ctx, cancel := context.WithCancel(context.Background())
	defer cancel()
	sub := &verifHeaderSub{ch: make(chan *header.ExtendedHeader, 2)}
	go m.subscribeHeader(ctx, sub)

	const hgt = 20
	H, H2 := verifHash(1), verifHash(2)
	p1, p2, p3, node := peer.ID("p1"), peer.ID("p2"), peer.ID("p3"), peer.ID("node")

	// an announcement for a hash no header has confirmed yet
	res := m.Validate(ctx, p1, shrexsub.Notification{DataHash: H, Height: hgt})
	nd.Assert(res == pubsub.ValidationIgnore, "announcement-is-not-relayed")
	nd.Cover("unconfirmed")
	nd.Assert(!m.nodes.has(p1), "unconfirmed-announcer-is-not-in-the-general-pool")
	// a second, never confirmed hash announced by p3
	m.Validate(ctx, p3, shrexsub.Notification{DataHash: H2, Height: hgt + 1})
	nd.Assert(!m.nodes.has(p3), "unconfirmed-announcer-is-not-in-the-general-pool")

	confirmed := nd.Choice(2, "headerArrives") == 1
	if confirmed {
		sub.ch <- verifEH(H, hgt)
		nd.RunOthers()
		nd.Cover("confirmed")
		nd.Assert(m.nodes.has(p1), "confirmed-announcers-are-promoted")
		nd.Assert(!m.nodes.has(p3), "unconfirmed-announcer-is-not-in-the-general-pool")
	}
	m.Validate(ctx, p2, shrexsub.Notification{DataHash: H, Height: hgt})
	nd.Assert(m.nodes.has(p2) == confirmed, "announcer-joins-the-general-pool-only-for-a-confirmed-hash")
	if nd.Choice(2, "discovery") == 1 {
		m.UpdateNodePool(node, true)
	}

	// a getter asks for a peer for the block (it holds the header: the hash is confirmed by that)
	got, done, err := m.Peer(ctx, H, hgt)
	nd.Assert(err == nil && (got == p1 || got == p2 || got == node), "a-known-active-peer-is-offered")
	nd.Cover("offered")
	nd.Assert(!m.nodes.has(p3), "unconfirmed-announcer-is-not-in-the-general-pool")

	if nd.Choice(2, "result") == 1 {
		done(ResultBlacklistPeer)
		if enable {
			nd.Cover("blacklisted")
			nd.Assert(verifBlocked[got] && verifClosed[got], "blacklisted-peer-is-blocked-and-disconnected")
			for i := 0; i < 2; i++ {
				again, _, err := m.Peer(ctx, H, hgt)
				nd.Assert(err == nil && again != got, "blacklisted-peer-is-never-offered-again")
			}
			nd.Assert(m.Validate(ctx, got, shrexsub.Notification{DataHash: H, Height: hgt}) == pubsub.ValidationReject, "blacklisted-peers-announcements-are-rejected")
			m.UpdateNodePool(got, true)
			nd.Assert(!m.nodes.has(got), "blacklisted-peer-is-not-re-admitted")
		} else {
			nd.Assert(!verifBlocked[got], "blacklisting-disabled-blocks-nobody")
		}
	} else {
		done(ResultNoop)
	}

	// garbage collection: the unconfirmed pool of H2 against the validation timeout
	if !confirmed {
		// without any header the manager cannot judge hashes yet
		nd.Assert(len(m.cleanUp()) == 0 && !m.isBlacklistedHash(H2), "no-blacklisting-before-the-first-header")
		return
	}
	created := m.getPool(H2.String()).createdAt
	bl := m.cleanUp()
	now := time.Now()
	if len(bl) > 0 {
		m.blacklistPeers(reasonInvalidHash, bl...)
	}
	if m.isBlacklistedHash(H2) {
		nd.Cover("gc-expired")
		nd.Assert(now.Sub(created) > time.Minute, "hash-is-blacklisted-only-after-the-validation-timeout")
		nd.Assert(len(bl) == 1 && bl[0] == p3, "exactly-the-announcers-of-the-expired-hash-are-blacklisted")
		nd.Assert(m.getPool(H2.String()) == nil, "expired-pool-is-removed")
		nd.Assert(m.Validate(ctx, peer.ID("p4"), shrexsub.Notification{DataHash: H2, Height: hgt + 1}) == pubsub.ValidationReject, "blacklisted-hash-is-rejected")
		nd.Assert(verifBlocked[p3] == enable, "announcers-of-an-expired-hash-are-blocked-when-blacklisting-is-on")
	} else {
		nd.Cover("gc-kept")
		nd.Assert(len(bl) == 0 && m.getPool(H2.String()) != nil, "young-unconfirmed-pool-is-kept")
	}
	nd.Assert(!m.isBlacklistedHash(H) && m.getPool(H.String()) != nil, "confirmed-recent-pool-is-kept")
	_ = errors.New
}
