//verif:overlay das/zz_verif_c04.go
//verif:pkgs ./header ./share/availability
//verif:replace (*github.com/celestiaorg/celestia-node/header.ExtendedHeader).Hash github.com/celestiaorg/celestia-node/das.verifStubHeaderHash
//verif:replace context.WithTimeout github.com/celestiaorg/celestia-node/das.verifWithTimeout
//verif:noop github.com/celestiaorg/celestia-app/v9/pkg/da
//verif:bound DASer run loop: the real samplingCoordinator.run and real workers under the engine's scheduler; starting checkpoint SampleFrom=s (arbitrary 64-bit, 1<=s<2^62), NetworkHead in [s-1, s] (quick) / [s-1, s+1] (thorough); sampling range 1..2; concurrency limit 1 (quick) / 1..2 (thorough); 2 environment events, each a new head or a checkpoint request; per-height sampling outcome ok | error | outside-window; schedules: deterministic round-robin at blocking points plus at most 1 scheduling deviation (delay bound) at any synchronisation operation of the das package
//verif:assume header store and sampling function are models (any outcome per height); the per-sample timeout never fires by itself (a timed-out sample is the outcome "error"); ExtendedHeader.Hash and DAH.String (logging arguments only) are stubbed; JSON encoding of the checkpoint is the identity
package das

import (
	"context"
	"errors"
	"time"

	libhead "github.com/celestiaorg/go-header"

	"github.com/celestiaorg/celestia-app/v9/pkg/da"

	"github.com/celestiaorg/celestia-node/header"
	"github.com/celestiaorg/celestia-node/share/availability"
	nd "github.com/celestiaorg/celestia-node/verifnd"
)

func verifStubHeaderHash(eh *header.ExtendedHeader) libhead.Hash { return libhead.Hash{1} }

func verifWithTimeout(ctx context.Context, d time.Duration) (context.Context, context.CancelFunc) {
	return context.WithCancel(ctx)
}

func verifHeader(h uint64) *header.ExtendedHeader {
	eh := &header.ExtendedHeader{DAH: &da.DataAvailabilityHeader{}}
	eh.RawHeader.Height = int64(h)
	return eh
}

type verifGetter struct{}

func (verifGetter) Head(context.Context, ...libhead.HeadOption[*header.ExtendedHeader]) (*header.ExtendedHeader, error) {
	return nil, errors.New("unused")
}
func (verifGetter) Get(context.Context, libhead.Hash) (*header.ExtendedHeader, error) {
	return nil, errors.New("unused")
}
func (verifGetter) GetByHeight(_ context.Context, h uint64) (*header.ExtendedHeader, error) {
	return verifHeader(h), nil
}
func (verifGetter) GetRangeByHeight(context.Context, *header.ExtendedHeader, uint64) ([]*header.ExtendedHeader, error) {
	return nil, errors.New("unused")
}

// ghost: heights for which sampling reported success (or outside-window)
type verifGhost struct {
	sampled []uint64
	calls   int
}

func (g *verifGhost) sampleFn(ctx context.Context, h *header.ExtendedHeader) error {
	g.calls++
	outcomes := 2 // quick: ok | error; thorough adds outside-window
	if nd.Thorough() && !verifLite {
		outcomes = 3
	}
	switch nd.Choice(outcomes, "outcome") {
	case 0:
		g.sampled = append(g.sampled, h.Height())
		return nil
	case 2:
		g.sampled = append(g.sampled, h.Height())
		return availability.ErrOutsideSamplingWindow
	}
	return errors.New("sampling failed")
}

// covered: resuming from cp samples height h again, or h was sampled. Built
// as one formula over h (no forking), so h ranges over every height at once.
func (g *verifGhost) covered(cp checkpoint, h uint64) bool {
	c := h >= cp.SampleFrom
	for _, s := range g.sampled {
		c = nd.Or(c, s == h)
	}
	for f := range cp.Failed {
		c = nd.Or(c, f == h)
	}
	for _, w := range cp.Workers {
		c = nd.Or(c, nd.And(w.From <= h, h <= w.To))
	}
	return c
}

func verifParams(limit int) Parameters {
	rng := uint64(2) // quick: fixed sampling range 2; thorough: 1..2
	if nd.Thorough() && !verifLite {
		rng = uint64(1 + nd.Choice(2, "range"))
	}
	return Parameters{
		SamplingRange:    rng,
		ConcurrencyLimit: limit,
		SampleTimeout:    time.Minute,
	}
}

// Every checkpoint the coordinator hands out (background store, Stop) covers
// every height in [start, head] that has not been sampled: no height is lost
// across a restart, whatever was in flight when the checkpoint was taken.
// Concurrency limit 1: catch-up and newest-head work are serialised.
//
//verif:opts nodeadlock preempt=1 threads=8 maxwall=1500 cover=checkpointed,newhead
func VerifH_C04_CheckpointCoversEverything() {
	// thorough widens the outcomes (outside-window) and the sampling range;
	// three starting heads on top of that did not complete within the path
	// bound and are not part of the registered thorough tier
	verifCheckpointScenario(1, 2)
}

// Same with concurrency limit 2 (a catch-up job and a newest-head job run side
// by side), starting caught up (quick) or anywhere (thorough).
//
//verif:opts nodeadlock preempt=1 threads=8 maxwall=1500 cover=checkpointed,newhead
func VerifH_C04_CheckpointCoversEverythingParallel() {
	// thorough: every history of two events (quick: new head, then checkpoint).
	// Three sampling outcomes, sampling range 1..2 or a second starting head on
	// top of that did not complete (> 430 000 paths in 70 min) and are not part
	// of the registered thorough tier for limit 2
	verifLite = true
	verifCheckpointScenario(2, 1)
}

// verifLite keeps the outcome / range widening of the thorough tier out of a scenario
var verifLite bool

// Slow sampling: every sample blocks until the checkpoint was taken, so all
// worker slots (catch-up and recent) stay busy while 2..3 consecutive new
// heads arrive - the coordinator has to drop recent jobs - and then a
// checkpoint is requested: the dropped heads must still be covered.
//
//verif:opts nodeadlock preempt=1 threads=10 maxwall=1500 cover=checkpointed,busy
func VerifH_C04_HeadsWhileAllWorkersAreBusy() {
	start := nd.U64("start")
	nd.Assume(start >= 1 && start < 1<<62)
	head := start + uint64(nd.Choice(2, "backlog")) // nothing or one height to catch up
	gate := make(chan struct{})
	g := &verifGhost{}
	slow := func(ctx context.Context, h *header.ExtendedHeader) error {
		select {
		case <-gate:
		case <-ctx.Done():
			return ctx.Err()
		}
		g.sampled = append(g.sampled, h.Height())
		return nil
	}
	sc := newSamplingCoordinator(verifParams(1), verifGetter{}, slow)
	ctx, cancel := context.WithCancel(context.Background())
	defer cancel()
	go sc.run(ctx, checkpoint{SampleFrom: start, NetworkHead: head})
	nd.RunOthers() // the initial jobs are handed to workers, which block on the gate

	n := 2 + nd.Choice(2, "heads")
	for i := 0; i < n; i++ {
		head++
		sc.listen(ctx, verifHeader(head))
		nd.RunOthers()
	}
	nd.Cover("busy")
	cp, err := sc.getCheckpoint(ctx)
	nd.Assert(err == nil, "checkpoint-available")
	nd.Cover("checkpointed")
	h := nd.U64("h")
	nd.Assume(start <= h && h <= cp.NetworkHead)
	nd.Assert(g.covered(cp, h), "checkpoint-covers-unsampled-height")
	nd.Assert(cp.NetworkHead == head, "network-head-tracked")
	close(gate)
}

func verifCheckpointScenario(limit, heads int) {
	start := nd.U64("start")
	nd.Assume(start >= 1 && start < 1<<62)
	head := start - 1 + uint64(nd.Choice(heads, "head0"))
	g := &verifGhost{}
	sc := newSamplingCoordinator(verifParams(limit), verifGetter{}, g.sampleFn)
	ctx, cancel := context.WithCancel(context.Background())
	defer cancel()
	go sc.run(ctx, checkpoint{SampleFrom: start, NetworkHead: head})

	events := 2
	for i := 0; i < events; i++ {
		// quick tier with limit 2: the fixed history "new head, then a
		// checkpoint"; otherwise every history of two events
		newHead := i == 0
		if limit == 1 || nd.Thorough() {
			newHead = nd.Choice(2, "event") == 0
		}
		if newHead {
			// the next head, or one announced with a gap (heads in between
			// were never announced)
			head += 1 + uint64(nd.Choice(2, "headGap"))
			nd.Cover("newhead")
			sc.listen(ctx, verifHeader(head))
			continue
		}
		cp, err := sc.getCheckpoint(ctx)
		nd.Assert(err == nil, "checkpoint-available")
		nd.Cover("checkpointed")
		h := nd.U64("h")
		nd.Assume(start <= h && h <= cp.NetworkHead)
		nd.Assert(g.covered(cp, h), "checkpoint-covers-unsampled-height")
		nd.Assert(cp.NetworkHead == head, "network-head-tracked")
	}
}
