//verif:overlay share/shwap/zz_verif_c18_containers.go
//verif:pkgs ./share/shwap/pb github.com/celestiaorg/nmt github.com/celestiaorg/nmt/pb github.com/celestiaorg/go-square/v4/share
//verif:init github.com/celestiaorg/go-square/v4/share github.com/celestiaorg/celestia-node/share/shwap
//verif:bound container <-> protobuf-struct conversions (the repository's hand-written ToProto / FromProto): sample (either axis), row (left, right, both), row namespace data (no proof, inclusion proof, absence proof with a leaf hash), range data (1..2 rows, 0..2 partial-row proofs); proofs with symbolic 64-bit start/end, 0..2 nodes of 2 symbolic bytes, symbolic flag; shares with 8 symbolic payload bytes. Decoder side: protobuf structs with nil members and shares of 511 / 512 / 513 bytes
//verif:outside the generated protobuf byte codec (Marshal/Unmarshal) and the length-delimited stream framing; JSON of containers other than Row (C18.json)
package shwap

import (
	"bytes"

	libshare "github.com/celestiaorg/go-square/v4/share"
	"github.com/celestiaorg/nmt"
	nmt_pb "github.com/celestiaorg/nmt/pb"
	"github.com/celestiaorg/rsmt2d"

	"github.com/celestiaorg/celestia-node/share/shwap/pb"
	nd "github.com/celestiaorg/celestia-node/verifnd"
)

func verifCShare(tag string) libshare.Share {
	raw := make([]byte, libshare.ShareSize)
	copy(raw, libshare.MustNewV0Namespace([]byte("c18")).Bytes())
	copy(raw[libshare.NamespaceSize:], nd.Bytes(8, tag))
	sh, err := libshare.NewShare(raw)
	nd.Assume(err == nil)
	return sh
}

func verifCNodes(tag string) [][]byte {
	var nodes [][]byte
	for i := nd.Choice(3, tag+".nodes"); i > 0; i-- {
		nodes = append(nodes, nd.Bytes(2, tag+".node"))
	}
	return nodes
}

// kind 0 inclusion, 1 absence (with leaf hash)
func verifCProof(tag string, kind int) *nmt.Proof {
	start, end := nd.Int(tag+".start"), nd.Int(tag+".end")
	// a proof a node constructs is over a non-empty leaf range (nmt's own
	// protobuf conversion maps start = end = 0 to "empty range proof")
	nd.Assume(start >= 0 && start < end)
	flag := nd.Bool(tag + ".ignoreMax")
	var p nmt.Proof
	if kind == 1 {
		p = nmt.NewAbsenceProof(start, end, verifCNodes(tag), nd.Bytes(2, tag+".leaf"), flag)
	} else {
		p = nmt.NewInclusionProof(start, end, verifCNodes(tag), flag)
	}
	return &p
}

func verifCSameProof(a, b *nmt.Proof) bool {
	if a == nil || b == nil {
		return a == nil && b == nil
	}
	if len(a.Nodes()) != len(b.Nodes()) {
		return false
	}
	eq := nd.And(a.Start() == b.Start(), a.End() == b.End())
	eq = nd.And(eq, a.IsMaxNamespaceIDIgnored() == b.IsMaxNamespaceIDIgnored())
	eq = nd.And(eq, nd.EqBytes(a.LeafHash(), b.LeafHash()))
	for i := range a.Nodes() {
		eq = nd.And(eq, nd.EqBytes(a.Nodes()[i], b.Nodes()[i]))
	}
	return eq
}

func verifCSameShares(a, b []libshare.Share) bool {
	if len(a) != len(b) {
		return false
	}
	eq := true
	for i := range a {
		eq = nd.And(eq, nd.EqBytes(a[i].ToBytes(), b[i].ToBytes()))
	}
	return eq
}

// Every container converts to its protobuf struct and back to an equal value.
//
//verif:opts nopanic nodeadlock noreplay cover=sample,row,row-both,rnd,rnd-absence,rnd-noproof,range
func VerifH_C18_ContainersSurviveTheProtobufStruct() {
	switch nd.Choice(4, "container") {
	case 0:
		nd.Cover("sample")
		s := Sample{Share: verifCShare("share"), Proof: verifCProof("proof", 0), ProofType: rsmt2d.Axis(nd.Choice(2, "axis"))}
		got, err := SampleFromProto(s.ToProto())
		nd.Assert(err == nil, "decodes")
		nd.Assert(got.ProofType == s.ProofType && nd.EqBytes(got.Share.ToBytes(), s.Share.ToBytes()) && verifCSameProof(got.Proof, s.Proof), "sample-decodes-to-an-equal-value")
	case 1:
		n := 1 + nd.Choice(2, "halfLen")
		side := RowSide(nd.Choice(3, "side")) // Left, Right, Both
		cnt := n
		if side == Both {
			cnt = 2 * n
		}
		shares := make([]libshare.Share, cnt)
		for i := range shares {
			shares[i] = verifCShare("share")
		}
		r := NewRow(shares, side)
		got, err := RowFromProto(r.ToProto())
		nd.Assert(err == nil, "decodes")
		if side == Both {
			nd.Cover("row-both")
			// a whole row is sent as its left half
			nd.Assert(got.side == Left && verifCSameShares(got.shares, shares[:n]), "whole-row-decodes-to-its-left-half")
		} else {
			nd.Cover("row")
			nd.Assert(got.side == side && verifCSameShares(got.shares, shares), "row-decodes-to-an-equal-value")
		}
	case 2:
		var rnd RowNamespaceData
		for i := nd.Choice(3, "shares"); i > 0; i-- {
			rnd.Shares = append(rnd.Shares, verifCShare("share"))
		}
		switch nd.Choice(3, "proofKind") {
		case 0:
			nd.Cover("rnd")
			rnd.Proof = verifCProof("proof", 0)
		case 1:
			nd.Cover("rnd-absence")
			rnd.Proof = verifCProof("proof", 1)
		default:
			nd.Cover("rnd-noproof")
		}
		got, err := RowNamespaceDataFromProto(rnd.ToProto())
		nd.Assert(err == nil, "decodes")
		nd.Assert(verifCSameShares(got.Shares, rnd.Shares) && verifCSameProof(got.Proof, rnd.Proof), "row-namespace-data-decodes-to-an-equal-value")
		if rnd.Proof != nil {
			nd.Assert(got.Proof.IsOfAbsence() == rnd.Proof.IsOfAbsence(), "proof-kind-survives")
		}
	case 3:
		nd.Cover("range")
		var rg RangeNamespaceData
		for i := 1 + nd.Choice(2, "rows"); i > 0; i-- {
			rg.Shares = append(rg.Shares, []libshare.Share{verifCShare("share")})
		}
		if nd.Choice(2, "firstProof") == 1 {
			rg.FirstIncompleteRowProof = verifCProof("first", 0)
		}
		if nd.Choice(2, "lastProof") == 1 {
			rg.LastIncompleteRowProof = verifCProof("last", 0)
		}
		got, err := RangeNamespaceDataFromProto(rg.ToProto())
		nd.Assert(err == nil, "decodes")
		nd.Assert(len(got.Shares) == len(rg.Shares), "range-decodes-to-an-equal-value")
		for i := range rg.Shares {
			if i < len(got.Shares) {
				nd.Assert(verifCSameShares(got.Shares[i], rg.Shares[i]), "range-decodes-to-an-equal-value")
			}
		}
		nd.Assert(verifCSameProof(got.FirstIncompleteRowProof, rg.FirstIncompleteRowProof) &&
			verifCSameProof(got.LastIncompleteRowProof, rg.LastIncompleteRowProof), "range-decodes-to-an-equal-value")
	}
}

func verifCPbShare(tag string) *pb.Share {
	switch nd.Choice(4, tag+".shape") {
	case 0:
		return nil
	case 1:
		return &pb.Share{Data: make([]byte, libshare.ShareSize-1)}
	case 2:
		return &pb.Share{Data: make([]byte, libshare.ShareSize+1)}
	}
	sh := verifCShare(tag)
	return &pb.Share{Data: sh.ToBytes()}
}

func verifCPbProof(tag string) *nmt_pb.Proof {
	if nd.Choice(2, tag+".present") == 0 {
		return nil
	}
	p := &nmt_pb.Proof{Start: nd.I64(tag + ".start"), End: nd.I64(tag + ".end"), Nodes: verifCNodes(tag), IsMaxNamespaceIgnored: nd.Bool(tag + ".flag")}
	if nd.Choice(2, tag+".leaf") == 1 {
		p.LeafHash = nd.Bytes(2, tag+".leafhash")
	}
	return p
}

// The FromProto decoders never panic on a malformed protobuf struct (nil
// members, shares of the wrong size): they refuse it or produce a container.
//
//verif:opts nopanic nodeadlock noreplay cover=refused,decoded
func VerifH_C18_FromProtoNeverPanics() {
	var err error
	switch nd.Choice(5, "decoder") {
	case 0:
		var s *pb.Sample
		if nd.Choice(2, "nil") == 0 {
			s = &pb.Sample{Share: verifCPbShare("share"), Proof: verifCPbProof("proof"), ProofType: pb.AxisType(nd.I32("axis"))}
		}
		var got Sample
		got, err = SampleFromProto(s)
		if err == nil {
			nd.Assert(bytes.Equal(got.Share.ToBytes()[:1], s.Share.Data[:1]) && got.Proof != nil, "decoded-sample-carries-the-share-and-a-proof")
		}
	case 1:
		var r *pb.Row
		if nd.Choice(2, "nil") == 0 {
			r = &pb.Row{SharesHalf: []*pb.Share{verifCPbShare("share")}, HalfSide: pb.Row_HalfSide(nd.I32("side"))}
		}
		_, err = RowFromProto(r)
	case 2:
		var r *pb.RowNamespaceData
		if nd.Choice(2, "nil") == 0 {
			r = &pb.RowNamespaceData{Shares: []*pb.Share{verifCPbShare("share")}, Proof: verifCPbProof("proof")}
		}
		_, err = RowNamespaceDataFromProto(r)
	case 3:
		var r *pb.RangeNamespaceData
		if nd.Choice(2, "nil") == 0 {
			r = &pb.RangeNamespaceData{FirstIncompleteRowProof: verifCPbProof("first"), LastIncompleteRowProof: verifCPbProof("last")}
			for i := nd.Choice(3, "rows"); i > 0; i-- {
				var row *pb.RowShares
				if nd.Choice(2, "rowNil") == 0 {
					row = &pb.RowShares{}
					for j := nd.Choice(2, "rowShares"); j > 0; j-- {
						row.Shares = append(row.Shares, verifCPbShare("share"))
					}
				}
				r.Shares = append(r.Shares, row)
			}
		}
		var got RangeNamespaceData
		got, err = RangeNamespaceDataFromProto(r)
		if err == nil {
			for _, row := range got.Shares {
				nd.Assert(len(row) > 0, "decoded-range-has-no-empty-row")
			}
		}
	case 4:
		_, err = ShareFromProto(verifCPbShare("share"))
	}
	if err != nil {
		nd.Cover("refused")
	} else {
		nd.Cover("decoded")
	}
}
