//verif:overlay store/zz_verif_c05_store.go
//verif:include ../C07/store.go
//verif:replace time.After github.com/celestiaorg/celestia-node/store.verifNeverC05
//verif:noop runtime github.com/ipfs/go-log/v2 go.uber.org/zap
//verif:bound store-level read paths: one block (ODS width 2; 2 or 4 filled shares) put with PutODSQ4 or PutODS and read through every representation the store has: the in-memory accessor published to the recent cache, the files reopened by GetByHeight (parity file present, never written, or pruned by RemoveQ4), and the serving cache (CachedStore) - first access and cached second access; reads = samples first (the proof-caching wrapper's fill path), then every axis half, the share list, roots, hash, size
//verif:assume as C07: veriffs file-system model, ideal codec, share/ipld node collection stubbed; cache close timeout never fires
package store

import (
	"context"
	"time"

	libshare "github.com/celestiaorg/go-square/v4/share"
	"github.com/celestiaorg/rsmt2d"

	"github.com/celestiaorg/celestia-node/share"
	"github.com/celestiaorg/celestia-node/share/eds"
	"github.com/celestiaorg/celestia-node/share/shwap"
	nd "github.com/celestiaorg/celestia-node/verifnd"
)

func verifNeverC05(d time.Duration) <-chan time.Time { return make(chan time.Time) }

// The plain in-memory accessor (no wrappers): every axis half, the share list,
// the streamed square and the share inside a sample at any coordinate are the
// square it was built from.
//
//verif:opts nopanic nodeadlock noreplay preempt=0 cover=read
func VerifH_C05_InMemoryAccessorReadsTheSquare() {
	verifSetup()
	const k = 2
	ctx := context.Background()
	ns := libshare.MustNewV0Namespace([]byte("c05-ns"))
	cells, sq := shwap.VerifModelSquare(k, 1+nd.Choice(k*k, "filled"), ns)
	acc := &eds.Rsmt2D{ExtendedDataSquare: sq}
	size, err := acc.Size(ctx)
	nd.Assert(err == nil && size == 2*k, "in-memory-accessor-serves-the-square")
	for _, axis := range []rsmt2d.Axis{rsmt2d.Row, rsmt2d.Col} {
		for idx := 0; idx < 2*k; idx++ {
			half, err := acc.AxisHalf(ctx, axis, idx)
			nd.Assert(err == nil && len(half.Shares) == k && !half.IsParity, "in-memory-accessor-serves-the-square")
			want := make([]libshare.Share, k)
			for i := 0; i < k; i++ {
				if axis == rsmt2d.Row {
					want[i] = cells[idx][i]
				} else {
					want[i] = cells[i][idx]
				}
			}
			nd.Assert(verifSame(half.Shares, want), "in-memory-accessor-serves-the-square")
		}
	}
	var q1 []libshare.Share
	for r := 0; r < k; r++ {
		q1 = append(q1, cells[r][:k]...)
	}
	shs, err := acc.Shares(ctx)
	nd.Assert(err == nil && verifSame(shs, q1), "in-memory-accessor-serves-the-square")
	rd, err := acc.Reader()
	nd.Assert(err == nil, "in-memory-accessor-serves-the-square")
	streamed, err := eds.ReadShares(rd, libshare.ShareSize, k)
	nd.Assert(err == nil && verifSame(streamed, q1), "in-memory-accessor-serves-the-square")
	row, col := nd.Choice(2*k, "row"), nd.Choice(2*k, "col")
	s, err := acc.Sample(ctx, shwap.SampleCoords{Row: row, Col: col})
	nd.Assert(err == nil && nd.EqBytes(s.Share.ToBytes(), cells[row][col].ToBytes()), "in-memory-accessor-serves-the-square")
	nd.Cover("read")
}

// Every representation of a stored block reads back as the block that was
// put, in whatever order the read paths are used.
//
//verif:opts nopanic nodeadlock noreplay preempt=0 maxwall=1500 cover=in-memory,reopened,q4-pruned,ods-only,serving-cache,second-access
func VerifH_C05_EveryRepresentationReadsBackTheBlock() {
	verifSetup()
	const k, tag, h = 2, 0x21, uint64(7)
	ctx := context.Background()
	ns := libshare.MustNewV0Namespace([]byte("c05-ns"))
	filled := 2 * (1 + nd.Choice(2, "filled"))
	cells, sq := shwap.VerifModelSquare(k, filled, ns)
	roots := verifTaggedRoots(tag, 2*k)
	verifRootsOf[sq] = roots
	hash := share.DataHash(verifHashOfTag(tag))

	recent := nd.Choice(2, "recentCache") // 0: no cache, 1: one slot
	st, err := NewStore(&Parameters{RecentBlocksCacheSize: recent}, "/s")
	nd.Assert(err == nil, "store-opens")
	withQ4 := nd.Choice(2, "withQ4") == 1
	if withQ4 {
		err = st.PutODSQ4(ctx, roots, h, sq)
	} else {
		err = st.PutODS(ctx, roots, h, sq)
		nd.Cover("ods-only")
	}
	nd.Assert(err == nil, "put-succeeds")

	var get func(context.Context, uint64) (eds.AccessorStreamer, error) = st.GetByHeight
	switch nd.Choice(3, "representation") {
	case 0:
		// as put: with a recent cache this is the in-memory square
		if recent > 0 {
			nd.Cover("in-memory")
		} else {
			nd.Cover("reopened")
		}
	case 1:
		// reopened from the files by a fresh store instance
		st2, err := NewStore(&Parameters{RecentBlocksCacheSize: recent}, "/s")
		nd.Assert(err == nil, "store-reopens")
		st, get = st2, st2.GetByHeight
		nd.Cover("reopened")
		if withQ4 && nd.Choice(2, "pruneQ4") == 1 {
			nd.Assert(st.RemoveQ4(ctx, h, hash) == nil, "remove-q4-succeeds")
			nd.Cover("q4-pruned")
		}
	case 2:
		if recent == 0 {
			nd.End() // the serving cache needs a store built with a recent cache to double up with
		}
		st2, err := NewStore(&Parameters{RecentBlocksCacheSize: recent}, "/s")
		nd.Assert(err == nil, "store-reopens")
		cs, err := st2.WithCache("serving", 1)
		nd.Assert(err == nil, "serving-cache")
		st, get = st2, cs.GetByHeight
		nd.Cover("serving-cache")
	}

	has, err := st.HasByHeight(ctx, h)
	nd.Assert(err == nil && has, "stored-block-exists")
	acc, err := get(ctx, h)
	nd.Assert(err == nil, "stored-block-is-readable")
	verifReadsCorrect(acc, cells, k, roots, tag)
	// a second access (cached accessor where there is a cache) reads the same
	acc, err = get(ctx, h)
	nd.Assert(err == nil, "stored-block-is-readable")
	nd.Cover("second-access")
	verifReadsCorrect(acc, cells, k, roots, tag)
}
