//verif:overlay verifself/zz_sym.go
//verif:bound translator self-test: see harness/selftest
package verifself

import (
	"encoding/binary"

	nd "github.com/celestiaorg/celestia-node/verifnd"
)

// ---- must hold -------------------------------------------------------------

func VerifH_SELF_sym_addsub() {
	x, y := nd.U64("x"), nd.U64("y")
	nd.Assert(x+y-y == x, "addsub")
	nd.Assert((x^y)^y == x, "xor")
	nd.Assert(x&y <= x, "and-le")
}

func VerifH_SELF_sym_conv() {
	x := nd.U64("x")
	nd.Assert(uint64(uint16(x)) == x&0xffff, "trunc16")
	nd.Assert(int64(int8(x)) >= -128 && int64(int8(x)) <= 127, "sext8")
	i := nd.I32("i")
	nd.Assert(int64(i) == int64(int32(int64(i))), "sext32-roundtrip")
	if i >= 0 {
		nd.Assert(uint64(i) == uint64(uint32(i)), "nonneg-zext")
	}
}

func VerifH_SELF_sym_bytes() {
	v := nd.U64("v")
	b := make([]byte, 8)
	binary.BigEndian.PutUint64(b, v)
	nd.Assert(binary.BigEndian.Uint64(b) == v, "be-roundtrip")
	nd.Assert(binary.LittleEndian.Uint64(b) == bswap(v), "le-is-bswap")
}

func bswap(v uint64) uint64 {
	var r uint64
	for i := 0; i < 8; i++ {
		r = r<<8 | (v>>(8*uint(i)))&0xff
	}
	return r
}

func VerifH_SELF_sym_index() {
	a := []int{10, 20, 30, 40}
	i := nd.Int("i")
	nd.Assume(i >= 0 && i < 4)
	nd.Assert(a[i] == 10*(i+1), "symbolic-index-read")
	a[i] = 7
	s := 0
	for _, v := range a {
		s += v
	}
	nd.Assert(s == 100-10*(i+1)+7, "symbolic-index-write")
}

func VerifH_SELF_sym_map() {
	m := map[uint64]int{}
	k1, k2 := nd.U64("k1"), nd.U64("k2")
	m[k1] = 1
	m[k2] = 2
	if k1 == k2 {
		nd.Assert(len(m) == 1 && m[k1] == 2, "same-key-overwrites")
	} else {
		nd.Assert(len(m) == 2 && m[k1] == 1 && m[k2] == 2, "distinct-keys")
	}
	delete(m, k1)
	_, ok := m[k1]
	nd.Assert(!ok, "deleted")
}

func VerifH_SELF_sym_shift() {
	x := nd.U32("x")
	s := nd.U8("s")
	if s >= 32 {
		nd.Assert(x<<s == 0 && x>>s == 0, "overshift-zero")
	} else {
		nd.Assert((x>>s)<<s <= x, "shift-roundtrip-le")
	}
	i := nd.I32("i")
	if i < 0 {
		nd.Assert(i>>31 == -1, "arith-shift-sign")
	}
}

func VerifH_SELF_sym_divzero() {
	x, y := nd.I64("x"), nd.I64("y")
	defer func() {
		if recover() != nil {
			nd.Assert(y == 0, "div-panics-only-on-zero")
		}
	}()
	q := x / y
	_ = q
	nd.Assert(y != 0, "no-panic-means-nonzero")
	// division identity with constant divisors (symbolic-by-symbolic
	// multiplication is outside what the back ends decide)
	z := int16(nd.U16("z"))
	for _, d := range []int16{1, -1, 3, 7, -10, 512} {
		nd.Assert((z/d)*d+z%d == z, "div-identity-16bit")
	}
	nd.Assert(x%8 < 8 && x%8 > -8, "rem-range")
}

// ---- must be violated (the engine must find the counterexample) -----------

//verif:opts expect=violation
func VerifH_SELF_bad_wrap() {
	x := nd.Int("x")
	nd.Assert(uint64(uint16(x)) == uint64(x) || x < 0, "uint16-wraps-above-65535")
}

//verif:opts expect=violation
func VerifH_SELF_bad_overflow() {
	x := nd.I32("x")
	nd.Assert(x+1 > x, "int32-overflow")
}

//verif:opts expect=violation nopanic
func VerifH_SELF_bad_index() {
	a := []int{1, 2, 3}
	i := nd.Int("i")
	nd.Assume(i >= 0 && i <= 3)
	_ = a[i]
}

//verif:opts expect=violation
func VerifH_SELF_bad_rare() {
	x := nd.U64("x")
	nd.Assert(x*3+7 != 0x1234567890abcdef, "single-bad-point")
}
