//verif:overlay verifself/self.go
// Package verifself holds the translator self-test: small Go functions whose
// results are computed twice, natively (go test) and by the symbolic engine
// executing their SSA, and compared. Every T_ function returns a checksum.
package verifself

import (
	"bytes"
	"encoding/binary"
	"errors"
	"fmt"
	"sort"
	"strings"
	"sync"
)

func mix(h uint64, v uint64) uint64 {
	h ^= v + 0x9e3779b97f4a7c15 + (h << 6) + (h >> 2)
	return h
}

func T_arith() uint64 {
	var h uint64
	xs := []int64{0, 1, -1, 7, -7, 1 << 62, -(1 << 62), 9223372036854775807, -9223372036854775808}
	for _, a := range xs {
		for _, b := range xs {
			h = mix(h, uint64(a+b))
			h = mix(h, uint64(a-b))
			h = mix(h, uint64(a*b))
			if b != 0 {
				h = mix(h, uint64(a/b))
				h = mix(h, uint64(a%b))
			}
			h = mix(h, uint64(a&b))
			h = mix(h, uint64(a|b))
			h = mix(h, uint64(a^b))
			h = mix(h, uint64(a&^b))
			if a < b {
				h = mix(h, 1)
			}
			if a <= b {
				h = mix(h, 2)
			}
		}
	}
	return h
}

func T_unsigned() uint64 {
	var h uint64
	xs := []uint32{0, 1, 2, 255, 256, 65535, 65536, 1<<31 - 1, 1 << 31, 1<<32 - 1}
	for _, a := range xs {
		for _, b := range xs {
			h = mix(h, uint64(a+b))
			h = mix(h, uint64(a-b))
			h = mix(h, uint64(a*b))
			if b != 0 {
				h = mix(h, uint64(a/b))
				h = mix(h, uint64(a%b))
			}
			if a < b {
				h = mix(h, 1)
			}
			h = mix(h, uint64(uint16(a)))
			h = mix(h, uint64(uint8(b)))
			h = mix(h, uint64(int8(a)))
			h = mix(h, uint64(int64(int32(a))))
			h = mix(h, uint64(int16(b)))
		}
	}
	return h
}

func T_shifts() uint64 {
	var h uint64
	vals := []int32{1, -1, 0x7fffffff, -0x80000000, 12345}
	for _, v := range vals {
		for s := uint(0); s < 40; s += 3 {
			h = mix(h, uint64(v<<s))
			h = mix(h, uint64(v>>s))
			h = mix(h, uint64(uint32(v)>>s))
			h = mix(h, uint64(uint8(v)<<(s%9)))
		}
	}
	var u8 uint8 = 200
	var sh8 uint8 = 3
	h = mix(h, uint64(u8<<sh8))
	h = mix(h, uint64(u8>>sh8))
	var big uint64 = 70
	h = mix(h, uint64(1)<<big)
	h = mix(h, uint64(int64(-5)>>big))
	return h
}

type point struct {
	X, Y int
	Tag  string
	A    [3]uint8
}

func T_structs() uint64 {
	p := point{1, 2, "a", [3]uint8{1, 2, 3}}
	q := p
	q.X = 10
	q.A[1] = 99
	arr := [2]point{p, q}
	arr2 := arr
	arr2[0].Y = 77
	pp := &arr[1]
	pp.Tag = "zz"
	h := uint64(0)
	for _, e := range [][2]point{arr, arr2} {
		for _, x := range e {
			h = mix(h, uint64(x.X))
			h = mix(h, uint64(x.Y))
			h = mix(h, uint64(len(x.Tag)))
			h = mix(h, uint64(x.A[1]))
		}
	}
	if p == q {
		h = mix(h, 5)
	}
	if arr[0] == arr2[0] {
		h = mix(h, 6)
	}
	if p == (point{1, 2, "a", [3]uint8{1, 2, 3}}) {
		h = mix(h, 7)
	}
	return h
}

func T_slices() uint64 {
	a := []int{1, 2, 3, 4, 5}
	b := a[1:3]
	b[0] = 20
	b = append(b, 30) // overwrites a[3]
	c := append(b, 40, 50, 60)
	c[0] = 200
	d := a[1:2:2]
	d = append(d, 99) // must not touch a
	var nilS []int
	nilS = append(nilS, a...)
	n := copy(a[2:], a)
	h := uint64(n)
	for _, s := range [][]int{a, b, c, d, nilS} {
		h = mix(h, uint64(len(s)))
		h = mix(h, uint64b(cap(s) > 0 && len(s) <= cap(s)))
		for _, v := range s {
			h = mix(h, uint64(v))
		}
	}
	var empty []int
	if empty == nil {
		h = mix(h, 1)
	}
	e2 := []int{}
	if e2 == nil {
		h = mix(h, 2)
	}
	bs := []byte("hello")
	bs = append(bs, " world"...)
	h = mix(h, uint64(len(bs)))
	m := make([][]byte, 2)
	m[0] = bs[:2]
	m[1] = bs[2:4]
	h = mix(h, uint64(m[1][0]))
	return h
}

func uint64b(b bool) uint64 {
	if b {
		return 1
	}
	return 0
}

func T_maps() uint64 {
	m := map[string]int{}
	m["a"] = 1
	m["b"] = 2
	m["a"] += 10
	delete(m, "zz")
	delete(m, "b")
	v, ok := m["b"]
	h := mix(uint64(v), uint64b(ok))
	h = mix(h, uint64(len(m)))
	type k struct {
		a int
		b string
	}
	km := map[k][]int{}
	km[k{1, "x"}] = append(km[k{1, "x"}], 5)
	km[k{1, "x"}] = append(km[k{1, "x"}], 6)
	km[k{2, "x"}] = nil
	h = mix(h, uint64(len(km[k{1, "x"}])))
	keys := []int{}
	for kk := range km {
		keys = append(keys, kk.a)
	}
	sort.Ints(keys)
	for _, x := range keys {
		h = mix(h, uint64(x))
	}
	im := map[interface{}]int{1: 1, "1": 2, [2]int{1, 2}: 3}
	h = mix(h, uint64(im[1]+im["1"]*10+im[[2]int{1, 2}]*100))
	var nm map[int]int
	h = mix(h, uint64(nm[3]))
	pm := map[*int]int{}
	x, y := 1, 1
	pm[&x] = 1
	pm[&y] = 2
	h = mix(h, uint64(len(pm)))
	mm := map[int]map[int]bool{}
	if mm[1] == nil {
		mm[1] = map[int]bool{}
	}
	mm[1][2] = true
	h = mix(h, uint64b(mm[1][2]))
	clear(m)
	h = mix(h, uint64(len(m)))
	return h
}

func T_strings() uint64 {
	s := "héllo, wörld"
	h := uint64(len(s))
	for i, r := range s {
		h = mix(h, uint64(i))
		h = mix(h, uint64(r))
	}
	h = mix(h, uint64(s[1]))
	t := s[2:5] + "x"
	h = mix(h, uint64(len(t)))
	if t < s {
		h = mix(h, 1)
	}
	if strings.Contains(s, "wö") {
		h = mix(h, 2)
	}
	h = mix(h, uint64(strings.Index(s, "lo")))
	parts := strings.Split("a,b,,c", ",")
	h = mix(h, uint64(len(parts)))
	h = mix(h, uint64(len(strings.Join(parts, "--"))))
	b := []byte(s)
	b[0] = 'H'
	h = mix(h, uint64(len(string(b))))
	if string(b) == s {
		h = mix(h, 3)
	}
	rs := []rune(s)
	h = mix(h, uint64(len(rs)))
	h = mix(h, uint64(len(string(rs[1:3]))))
	h = mix(h, uint64(len(strings.Repeat("ab", 3))))
	h = mix(h, uint64(len(strings.ToUpper("abc"))))
	h = mix(h, uint64(len(strings.TrimSpace("  x "))))
	var sb strings.Builder
	sb.WriteString("abc")
	sb.WriteByte('d')
	h = mix(h, uint64(len(sb.String())))
	if strings.HasPrefix(s, "hé") && strings.HasSuffix(s, "ld") {
		h = mix(h, 4)
	}
	return h
}

type shape interface {
	Area() int
}
type named interface {
	shape
	Name() string
}
type rect struct{ w, h int }
type circ struct{ r int }

func (r rect) Area() int    { return r.w * r.h }
func (r rect) Name() string { return "rect" }
func (c *circ) Area() int   { return 3 * c.r * c.r }

func T_ifaces() uint64 {
	shapes := []shape{rect{2, 3}, &circ{2}, rect{1, 1}}
	h := uint64(0)
	for _, s := range shapes {
		h = mix(h, uint64(s.Area()))
		switch v := s.(type) {
		case rect:
			h = mix(h, uint64(v.w))
		case *circ:
			h = mix(h, uint64(v.r+100))
		}
		if n, ok := s.(named); ok {
			h = mix(h, uint64(len(n.Name())))
		}
	}
	var s shape
	if s == nil {
		h = mix(h, 9)
	}
	var c *circ
	s = c
	if s != nil {
		h = mix(h, 10)
	}
	if shapes[0] == shape(rect{2, 3}) {
		h = mix(h, 11)
	}
	f := shapes[1].Area
	h = mix(h, uint64(f()))
	g := rect.Area
	h = mix(h, uint64(g(rect{5, 5})))
	var e interface{} = 5
	if i, ok := e.(int); ok {
		h = mix(h, uint64(i))
	}
	if _, ok := e.(string); !ok {
		h = mix(h, 12)
	}
	return h
}

func divide(a, b int) (res int, err error) {
	defer func() {
		if r := recover(); r != nil {
			err = fmt.Errorf("recovered: %v", r)
			res = -1
		}
	}()
	return a / b, nil
}

func deferOrder() (s string) {
	for i := 0; i < 3; i++ {
		defer func(i int) { s += string(rune('a' + i)) }(i)
	}
	return "x"
}

func mustPanic(f func()) (p bool) {
	defer func() {
		if recover() != nil {
			p = true
		}
	}()
	f()
	return false
}

func T_defer() uint64 {
	h := uint64(0)
	r, err := divide(6, 3)
	h = mix(h, uint64(r))
	h = mix(h, uint64b(err == nil))
	r, err = divide(6, 0)
	h = mix(h, uint64(r))
	h = mix(h, uint64b(err == nil))
	h = mix(h, uint64(len(deferOrder())))
	if deferOrder() == "xcba" {
		h = mix(h, 3)
	}
	var a []int
	h = mix(h, uint64b(mustPanic(func() { _ = a[3] })))
	var mp map[string]int
	h = mix(h, uint64b(mustPanic(func() { mp["a"] = 1 })))
	var pp *point
	h = mix(h, uint64b(mustPanic(func() { _ = pp.X })))
	h = mix(h, uint64b(mustPanic(func() { panic("x") })))
	h = mix(h, uint64b(mustPanic(func() {})))
	var ifc interface{} = "s"
	h = mix(h, uint64b(mustPanic(func() { _ = ifc.(int) })))
	lo := 1
	h = mix(h, uint64b(mustPanic(func() { _ = a[lo:0] })))
	// nested panics: re-panic in deferred
	h = mix(h, uint64b(mustPanic(func() {
		defer func() {
			recover()
			panic("again")
		}()
		panic("first")
	})))
	return h
}

var errBase = errors.New("base")

type myErr struct{ code int }

func (e *myErr) Error() string { return fmt.Sprintf("myErr %d", e.code) }

func T_errors() uint64 {
	h := uint64(0)
	e1 := fmt.Errorf("wrap: %w", errBase)
	e2 := fmt.Errorf("wrap2: %w", e1)
	h = mix(h, uint64b(errors.Is(e2, errBase)))
	h = mix(h, uint64b(errors.Is(e1, e2)))
	h = mix(h, uint64b(errors.Unwrap(e1) == errBase))
	e3 := fmt.Errorf("x %d: %w", 5, &myErr{7})
	var me *myErr
	if errors.As(e3, &me) {
		h = mix(h, uint64(me.code))
	}
	h = mix(h, uint64(len(e3.Error())))
	j := errors.Join(errBase, e3)
	h = mix(h, uint64b(errors.Is(j, errBase)))
	h = mix(h, uint64b(errors.As(j, &me)))
	e4 := fmt.Errorf("two %w and %w", errBase, &myErr{1})
	h = mix(h, uint64b(errors.Is(e4, errBase)))
	h = mix(h, uint64b(errors.Is(nil, errBase)))
	var ne error
	h = mix(h, uint64b(ne == nil))
	return h
}

func fib(n int) int {
	if n < 2 {
		return n
	}
	return fib(n-1) + fib(n-2)
}

func adder() func(int) int {
	s := 0
	return func(x int) int { s += x; return s }
}

func sum(xs ...int) int {
	t := 0
	for _, x := range xs {
		t += x
	}
	return t
}

func T_funcs() uint64 {
	h := uint64(fib(15))
	a := adder()
	a(1)
	a(2)
	h = mix(h, uint64(a(3)))
	h = mix(h, uint64(sum()))
	h = mix(h, uint64(sum(1, 2, 3)))
	h = mix(h, uint64(sum([]int{4, 5}...)))
	fs := []func() int{}
	for i := 0; i < 3; i++ {
		fs = append(fs, func() int { return i * i })
	}
	for _, f := range fs {
		h = mix(h, uint64(f()))
	}
	var nf func()
	h = mix(h, uint64b(nf == nil))
	x := 0
outer:
	for i := 0; i < 5; i++ {
		for j := 0; j < 5; j++ {
			if j == 3 {
				continue outer
			}
			if i == 3 {
				break outer
			}
			x += i*10 + j
		}
	}
	h = mix(h, uint64(x))
	switch {
	case x > 1000:
		h = mix(h, 1)
	case x > 10:
		h = mix(h, 2)
		fallthrough
	case x > 5:
		h = mix(h, 3)
	default:
		h = mix(h, 4)
	}
	return h
}

type num interface{ ~int | ~int64 | ~uint8 }

func gsum[T num](xs []T) T {
	var t T
	for _, x := range xs {
		t += x
	}
	return t
}

type stack[T any] struct{ items []T }

func (s *stack[T]) push(x T) { s.items = append(s.items, x) }
func (s *stack[T]) pop() (T, bool) {
	var z T
	if len(s.items) == 0 {
		return z, false
	}
	x := s.items[len(s.items)-1]
	s.items = s.items[:len(s.items)-1]
	return x, true
}

func gmap[K comparable, V any](m map[K]V) []K {
	var ks []K
	for k := range m {
		ks = append(ks, k)
	}
	return ks
}

func T_generics() uint64 {
	h := uint64(gsum([]int{1, 2, 3}))
	h = mix(h, uint64(gsum([]uint8{200, 100})))
	s := &stack[string]{}
	s.push("a")
	s.push("bb")
	x, _ := s.pop()
	h = mix(h, uint64(len(x)))
	_, ok := (&stack[int]{}).pop()
	h = mix(h, uint64b(ok))
	h = mix(h, uint64(len(gmap(map[int]string{1: "a", 2: "b"}))))
	return h
}

func T_binary() uint64 {
	b := make([]byte, 16)
	binary.BigEndian.PutUint64(b, 0x0102030405060708)
	binary.LittleEndian.PutUint32(b[8:], 0xdeadbeef)
	binary.BigEndian.PutUint16(b[12:], 0xcafe)
	h := binary.BigEndian.Uint64(b)
	h = mix(h, uint64(binary.LittleEndian.Uint32(b[8:])))
	h = mix(h, uint64(binary.BigEndian.Uint16(b[12:])))
	b = binary.BigEndian.AppendUint32(b, 77)
	h = mix(h, uint64(len(b)))
	h = mix(h, uint64(b[19]))
	h = mix(h, uint64b(bytes.Equal(b[:2], []byte{1, 2})))
	h = mix(h, uint64(bytes.Compare(b[:2], []byte{1, 3})+1))
	h = mix(h, uint64(bytes.IndexByte(b, 8)))
	buf := bytes.NewBuffer(nil)
	buf.Write([]byte{1, 2, 3})
	buf.WriteByte(4)
	p := make([]byte, 2)
	n, _ := buf.Read(p)
	h = mix(h, uint64(n+buf.Len()*10))
	v := binary.AppendUvarint(nil, 300)
	uv, k := binary.Uvarint(v)
	h = mix(h, uv+uint64(k))
	return h
}

func T_sort() uint64 {
	xs := []int{5, 2, 8, 1, 9, 3}
	sort.Ints(xs)
	h := uint64(0)
	for _, x := range xs {
		h = mix(h, uint64(x))
	}
	ps := []point{{3, 1, "c", [3]uint8{}}, {1, 2, "a", [3]uint8{}}, {2, 3, "b", [3]uint8{}}}
	sort.Slice(ps, func(i, j int) bool { return ps[i].X < ps[j].X })
	for _, p := range ps {
		h = mix(h, uint64(p.Y))
	}
	i := sort.Search(len(xs), func(i int) bool { return xs[i] >= 8 })
	h = mix(h, uint64(i))
	return h
}

func T_goroutines() uint64 {
	var mu sync.Mutex
	var wg sync.WaitGroup
	total := 0
	for i := 1; i <= 4; i++ {
		wg.Add(1)
		go func(i int) {
			defer wg.Done()
			mu.Lock()
			total += i
			mu.Unlock()
		}(i)
	}
	wg.Wait()
	ch := make(chan int)
	done := make(chan struct{})
	go func() {
		s := 0
		for v := range ch {
			s += v
		}
		total += s
		close(done)
	}()
	for i := 0; i < 3; i++ {
		ch <- i * 10
	}
	close(ch)
	<-done
	bc := make(chan int, 2)
	bc <- 1
	bc <- 2
	h := uint64(total)
	select {
	case bc <- 3:
		h = mix(h, 1)
	default:
		h = mix(h, 2)
	}
	h = mix(h, uint64(len(bc)+cap(bc)*10))
	v, ok := <-bc
	h = mix(h, uint64(v)+uint64b(ok))
	close(bc)
	<-bc
	v, ok = <-bc
	h = mix(h, uint64(v)+uint64b(ok))
	var once sync.Once
	c := 0
	for i := 0; i < 3; i++ {
		once.Do(func() { c++ })
	}
	h = mix(h, uint64(c))
	var rw sync.RWMutex
	rw.RLock()
	rw.RLock()
	rw.RUnlock()
	rw.RUnlock()
	rw.Lock()
	rw.Unlock()
	return h
}

type node struct {
	val  int
	next *node
}

func T_pointers() uint64 {
	var head *node
	for i := 0; i < 5; i++ {
		head = &node{i, head}
	}
	h := uint64(0)
	for n := head; n != nil; n = n.next {
		h = mix(h, uint64(n.val))
	}
	x := 5
	p := &x
	pp := &p
	**pp = 9
	h = mix(h, uint64(x))
	arr := [4]int{1, 2, 3, 4}
	ap := &arr
	ap[2] = 30
	s := ap[1:3]
	s[0] = 20
	h = mix(h, uint64(arr[1]+arr[2]))
	for i := range ap {
		h = mix(h, uint64(i))
	}
	type inner struct{ a, b int }
	type outer struct {
		in  inner
		arr [2]inner
	}
	o := outer{}
	ip := &o.arr[1]
	ip.b = 7
	o2 := o
	ip.b = 8
	h = mix(h, uint64(o2.arr[1].b*10+o.arr[1].b))
	sl := []inner{{1, 2}, {3, 4}}
	for _, e := range sl {
		e.a = 100
	}
	for i := range sl {
		sl[i].b++
	}
	h = mix(h, uint64(sl[0].a+sl[1].b))
	a4 := (*[2]inner)(sl)
	a4[0].a = 50
	h = mix(h, uint64(sl[0].a))
	return h
}

func T_fmt() uint64 {
	s := fmt.Sprintf("%d-%s-%v-%x-%t", 42, "ab", 7, 255, true)
	h := uint64(len(s))
	if s == "42-ab-7-ff-true" {
		h = mix(h, 1)
	}
	e := fmt.Errorf("code %d", 3)
	if e.Error() == "code 3" {
		h = mix(h, 2)
	}
	return h
}

// Tests lists every self-test function.
var Tests = map[string]func() uint64{
	"arith": T_arith, "unsigned": T_unsigned, "shifts": T_shifts, "structs": T_structs,
	"slices": T_slices, "maps": T_maps, "strings": T_strings, "ifaces": T_ifaces,
	"defer": T_defer, "errors": T_errors, "funcs": T_funcs, "generics": T_generics,
	"binary": T_binary, "sort": T_sort, "goroutines": T_goroutines, "pointers": T_pointers,
	"fmt": T_fmt,
}
