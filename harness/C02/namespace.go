//verif:overlay share/shwap/zz_verif_c02.go
//verif:include ../C01/model.go
//verif:bound namespace data: honest ODS of width 2 whose 4 cells carry namespaces from {A<B<C} in any sorted (non-decreasing, row-major) assignment with symbolic contents, row trees committed through the real wrapper/nmt code over the ideal hash/codec; requested namespace: A, B, C, one strictly between A and B, one above C; response: an ARBITRARY NamespaceData value - 0..3 rows, each with 0..2 shares (namespace by choice, symbolic contents) and a proof that is absent, an inclusion proof or an absence proof with symbolic start/end, 0..2 arbitrary nodes and an arbitrary leaf hash
//verif:outside the second proof producer that walks cached NMT nodes (share/ipld, eds/proofs_cache.go): executed by the C05 check (group C05.ipld), not here
package shwap

import (
	"bytes"

	libshare "github.com/celestiaorg/go-square/v4/share"
	"github.com/celestiaorg/nmt"

	"github.com/celestiaorg/celestia-node/share"
	nd "github.com/celestiaorg/celestia-node/verifnd"
)

var (
	verifNsA  = libshare.MustNewV0Namespace([]byte("ns-a"))
	verifNsAB = libshare.MustNewV0Namespace([]byte("ns-ab"))
	verifNsB  = libshare.MustNewV0Namespace([]byte("ns-b"))
	verifNsC  = libshare.MustNewV0Namespace([]byte("ns-c"))
	verifNsZ  = libshare.MustNewV0Namespace([]byte("ns-z"))
)

// honest sorted ODS (w=2) and its roots (data rows through the tree code,
// parity rows as parity-range roots)
func verifSortedSquare() ([][]libshare.Share, [][]libshare.Namespace, *share.AxisRoots) {
	const w = 2
	three := []libshare.Namespace{verifNsA, verifNsB, verifNsC}
	ods := make([][]libshare.Share, w)
	nss := make([][]libshare.Namespace, w)
	// quick: 7 representative sorted layouts; thorough: all 15
	layouts := [][4]int{{0, 0, 0, 0}, {0, 0, 1, 1}, {0, 1, 1, 2}, {0, 1, 1, 1}, {0, 0, 0, 1}, {1, 1, 1, 2}, {0, 2, 2, 2}}
	var lay [4]int
	if nd.Thorough() {
		cur := 0
		for i := range lay {
			cur += nd.Choice(3-cur, "nsStep") // non-decreasing
			lay[i] = cur
		}
	} else {
		lay = layouts[nd.Choice(len(layouts), "layout")]
	}
	for r := 0; r < w; r++ {
		ods[r] = make([]libshare.Share, w)
		nss[r] = make([]libshare.Namespace, w)
		for c := 0; c < w; c++ {
			nss[r][c] = three[lay[r*w+c]]
			ods[r][c] = verifSymShare(nss[r][c], "ods")
		}
	}
	roots := &share.AxisRoots{RowRoots: make([][]byte, 2*w), ColumnRoots: make([][]byte, 2*w)}
	for r := 0; r < w; r++ {
		ext, err := share.ExtendShares(ods[r])
		nd.Assume(err == nil)
		root, err := buildTreeRootFromLeaves(libshare.ToBytes(ext), uint(r))
		nd.Assume(err == nil)
		roots.RowRoots[r] = root
	}
	for r := w; r < 2*w; r++ {
		p := make([]byte, 90)
		copy(p, libshare.ParitySharesNamespace.Bytes())
		copy(p[libshare.NamespaceSize:], libshare.ParitySharesNamespace.Bytes())
		copy(p[2*libshare.NamespaceSize:], nd.Bytes(8, "parityRowRoot"))
		roots.RowRoots[r] = p
	}
	for c := range roots.ColumnRoots {
		roots.ColumnRoots[c] = make([]byte, 90)
	}
	return ods, nss, roots
}

func verifOtherNs(want libshare.Namespace) libshare.Namespace {
	if want.Equals(verifNsB) {
		return verifNsA
	}
	return verifNsB
}

// a share whose namespace is a or b depending on a symbolic selector
func verifSelShare(sel bool, a, b libshare.Namespace, tag string) libshare.Share {
	raw := make([]byte, libshare.ShareSize)
	ab, bb := a.Bytes(), b.Bytes()
	for i := 0; i < libshare.NamespaceSize; i++ {
		raw[i] = nd.IteU8(sel, ab[i], bb[i])
	}
	copy(raw[libshare.NamespaceSize:], nd.Bytes(8, tag))
	sh, err := libshare.NewShare(raw)
	nd.Assume(err == nil)
	return sh
}

func verifWantedNs() libshare.Namespace {
	return []libshare.Namespace{verifNsA, verifNsB, verifNsC, verifNsAB, verifNsZ}[nd.Choice(5, "wanted")]
}

func verifArbNsProof(tag string) *nmt.Proof {
	kind := nd.Choice(3, tag+".kind")
	if kind == 0 {
		return nil
	}
	start, end := nd.Int(tag+".start"), nd.Int(tag+".end")
	nd.Assume(start >= 0 && start <= 4 && end >= 0 && end <= 4)
	n := nd.Choice(3, tag+".nodes")
	nodes := make([][]byte, n)
	for i := range nodes {
		node := make([]byte, 90)
		copy(node, nd.Bytes(2*libshare.NamespaceSize+8, tag+".node"))
		nodes[i] = node
	}
	if kind == 1 {
		p := nmt.NewInclusionProof(start, end, nodes, true)
		return &p
	}
	leaf := make([]byte, 90)
	copy(leaf, nd.Bytes(2*libshare.NamespaceSize+8, tag+".leafHash"))
	p := nmt.NewAbsenceProof(start, end, nodes, leaf, true)
	return &p
}

// Namespace data that verifies contains every committed share of the
// namespace, in block order, and nothing else; rows are exactly the rows
// whose range covers the namespace; an empty row is only accepted when the
// namespace is absent from that row.
//
//verif:opts nopanic noreplay maxwall=1700 cover=accepted,rejected,nonempty,absence
func VerifH_C02_NamespaceDataComplete() {
	verifReset()
	ods, nss, roots := verifSortedSquare()
	want := verifWantedNs()
	nrows := nd.Choice(3, "rows")
	resp := make(NamespaceData, nrows)
	for i := range resp {
		n := nd.Choice(3, "rowlen")
		resp[i].Shares = make([]libshare.Share, n)
		for j := range resp[i].Shares {
			// namespace of a response share: the wanted one or another one,
			// selected symbolically (decided only where the verifier looks)
			resp[i].Shares[j] = verifSelShare(nd.Bool("shareNsIsWanted"), want, verifOtherNs(want), "resp")
		}
		resp[i].Proof = verifArbNsProof("proof")
	}
	if err := resp.Verify(roots, want); err != nil {
		nd.Cover("rejected")
		return
	}
	nd.Cover("accepted")
	// reference: the committed shares of the namespace, in block order, and
	// the rows whose [min,max] covers it
	var ref []libshare.Share
	rowsCovering := 0
	for r := range ods {
		lo, hi := nss[r][0], nss[r][len(nss[r])-1]
		if !want.IsLessThan(lo) && !want.IsGreaterThan(hi) {
			rowsCovering++
		}
		for c := range ods[r] {
			if nss[r][c].Equals(want) {
				ref = append(ref, ods[r][c])
			}
		}
	}
	nd.Assert(len(resp) == rowsCovering, "one-entry-per-row-whose-range-covers-the-namespace")
	got := resp.Flatten()
	nd.Assert(len(got) == len(ref), "every-share-of-the-namespace-and-nothing-else")
	if len(ref) > 0 {
		nd.Cover("nonempty")
	} else {
		nd.Cover("absence")
	}
	for i := range ref {
		if i < len(got) {
			nd.Assert(bytes.Equal(got[i].ToBytes(), ref[i].ToBytes()), "shares-in-block-order")
		}
	}
}

// The honest producer's rows verify and carry exactly the namespace's shares.
//
//verif:opts nopanic noreplay cover=served,outside
func VerifH_C02_HonestAccepted() {
	verifReset()
	ods, nss, roots := verifSortedSquare()
	want := verifWantedNs()
	var resp NamespaceData
	var ref []libshare.Share
	for r := range ods {
		ext, err := share.ExtendShares(ods[r])
		nd.Assume(err == nil)
		rnd, err := RowNamespaceDataFromShares(ext, want, r)
		lo, hi := nss[r][0], nss[r][len(nss[r])-1]
		covers := !want.IsLessThan(lo) && !want.IsGreaterThan(hi)
		if !covers {
			nd.Cover("outside")
			nd.Assert(err != nil, "row-outside-range-is-refused")
			continue
		}
		nd.Assert(err == nil, "row-in-range-is-served")
		resp = append(resp, rnd)
		for c := range ods[r] {
			if nss[r][c].Equals(want) {
				ref = append(ref, ods[r][c])
			}
		}
	}
	nd.Cover("served")
	nd.Assert(resp.Verify(roots, want) == nil, "honest-namespace-data-verifies")
	got := resp.Flatten()
	nd.Assert(len(got) == len(ref), "honest-data-is-complete")
	for i := range ref {
		if i < len(got) {
			nd.Assert(bytes.Equal(got[i].ToBytes(), ref[i].ToBytes()), "honest-data-in-order")
		}
	}
}
