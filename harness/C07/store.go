//verif:overlay store/zz_verif_c07.go
//verif:include ../C05/file.go
//verif:pkgs path/filepath internal/filepathlite ./store/file ./store/cache ./share/eds ./share ./libs/utils github.com/hashicorp/golang-lru/v2 github.com/hashicorp/golang-lru/v2/simplelru github.com/hashicorp/golang-lru/v2/internal
//verif:init github.com/celestiaorg/celestia-node/share/eds github.com/celestiaorg/celestia-node/store/file
//verif:replace os.Mkdir github.com/celestiaorg/celestia-node/veriffs.Mkdir
//verif:replace os.MkdirAll github.com/celestiaorg/celestia-node/veriffs.MkdirAll
//verif:replace os.Link github.com/celestiaorg/celestia-node/veriffs.Link
//verif:replace os.Symlink github.com/celestiaorg/celestia-node/veriffs.Symlink
//verif:replace os.Stat github.com/celestiaorg/celestia-node/veriffs.Stat
//verif:replace os.Remove github.com/celestiaorg/celestia-node/veriffs.Remove
//verif:replace github.com/celestiaorg/celestia-node/share.EmptyEDSDataHash github.com/celestiaorg/celestia-node/store.verifEmptyHash
//verif:replace github.com/celestiaorg/celestia-node/share.EmptyEDSRoots github.com/celestiaorg/celestia-node/store.verifEmptyRoots
//verif:replace github.com/celestiaorg/celestia-node/share.EmptyEDS github.com/celestiaorg/celestia-node/store.verifEmptyEDS
//verif:replace github.com/celestiaorg/celestia-node/share.NewAxisRoots github.com/celestiaorg/celestia-node/store.verifNewAxisRoots
//verif:pkgs ./share/ipld
//verif:replace github.com/celestiaorg/celestia-node/share/ipld.GetProof github.com/celestiaorg/celestia-node/store.verifGetProof
//verif:replace (*github.com/celestiaorg/celestia-node/share/ipld.ProofsAdder).VisitFn github.com/celestiaorg/celestia-node/store.verifVisitFn
//verif:replace (*github.com/celestiaorg/celestia-node/share/ipld.ProofsAdder).Proofs github.com/celestiaorg/celestia-node/store.verifAdderProofs
//verif:assume the proof-caching wrapper's NMT node collection and proof extraction (share/ipld: CID-keyed node maps) are stubs - its per-axis caching logic, tree construction over the ideal hash and share selection are executed; the proof inside a served sample is not inspected here (C01)
//verif:bound crash during a store operation: one block (ODS width 2; 2 or 4 filled shares) or the empty block; operation = PutODSQ4, PutODS, put of the empty block, RemoveODSQ4 or RemoveQ4 after a complete put; the process dies before ANY one of the first 8 file-system mutations of the operation (file creation, each write, link, each removal) - the crashing write may be torn (half of its bytes persisted) - or not at all; ODS and Q4 files are written by two goroutines in either order (1 scheduling deviation); then restart (NewStore on the same directory), lookup, re-put, re-remove
//verif:assume file system = package veriffs model; a crash keeps exactly the mutations that completed before it (no reordering of completed writes by the OS: fsync semantics are outside the model - the store itself never calls Sync)
//verif:outside squares needing several buffered writes (64 KiB buffer: ODS width >= 16), loss of completed-but-unsynced writes on power failure, recent-block cache > 0
package store

import (
	"context"
	"errors"

	"github.com/ipfs/boxo/blockservice"
	"github.com/ipfs/go-cid"

	"github.com/celestiaorg/celestia-app/v9/pkg/da"
	libshare "github.com/celestiaorg/go-square/v4/share"
	"github.com/celestiaorg/nmt"
	"github.com/celestiaorg/rsmt2d"

	"github.com/celestiaorg/celestia-node/share"
	"github.com/celestiaorg/celestia-node/share/eds"
	"github.com/celestiaorg/celestia-node/share/ipld"
	"github.com/celestiaorg/celestia-node/share/shwap"
	"github.com/celestiaorg/celestia-node/store/file"
	"github.com/celestiaorg/celestia-node/veriffs"
	nd "github.com/celestiaorg/celestia-node/verifnd"
)

var (
	verifEmptyRootsV *share.AxisRoots
	verifEmptySq     *rsmt2d.ExtendedDataSquare
	verifEmptyCells  [][]libshare.Share
)

func verifHashOfTag(tag byte) []byte {
	h := make([]byte, 32)
	h[0], h[1], h[30], h[31] = tag, 0x5A, tag, 0x01
	return h
}

func verifEmptyHash() share.DataHash            { return verifHashOfTag(0xEE) }
func verifEmptyRoots() *share.AxisRoots         { return verifEmptyRootsV }
func verifEmptyEDS() *rsmt2d.ExtendedDataSquare { return verifEmptySq }

func verifGetProof(ctx context.Context, g blockservice.BlockGetter, root []byte, shareIdx, total int) (nmt.Proof, error) {
	return nmt.NewInclusionProof(shareIdx, shareIdx+1, nil, true), nil
}
func verifVisitFn(a *ipld.ProofsAdder) nmt.NodeVisitorFn      { return nil }
func verifAdderProofs(a *ipld.ProofsAdder) map[cid.Cid][]byte { return nil }

// roots of an in-memory square (the in-memory accessor recomputes them): the
// roots the harness committed for that square
var verifRootsOf map[*rsmt2d.ExtendedDataSquare]*share.AxisRoots

func verifNewAxisRoots(e *rsmt2d.ExtendedDataSquare) (*share.AxisRoots, error) {
	if r, ok := verifRootsOf[e]; ok {
		return r, nil
	}
	return nil, errors.New("model: roots of an unknown square")
}

func verifTaggedRoots(tag byte, width int) *share.AxisRoots {
	r := &share.AxisRoots{}
	for i := 0; i < width; i++ {
		row := make([]byte, share.AxisRootSize)
		row[0], row[1] = tag, byte(i)
		col := make([]byte, share.AxisRootSize)
		col[0], col[1] = tag, byte(0x80+i)
		r.RowRoots = append(r.RowRoots, row)
		r.ColumnRoots = append(r.ColumnRoots, col)
	}
	return r
}

func verifSame(got, want []libshare.Share) bool {
	if len(got) != len(want) {
		return false
	}
	eq := true
	for i := range got {
		eq = nd.And(eq, nd.EqBytes(got[i].ToBytes(), want[i].ToBytes()))
	}
	return eq
}

// every read path of an accessor against the committed square
func verifReadsCorrect(acc eds.AccessorStreamer, cells [][]libshare.Share, k int, roots *share.AxisRoots, tag byte) {
	ctx := context.Background()
	size, err := acc.Size(ctx)
	nd.Assert(err == nil && size == 2*k, "served-block-is-complete-and-correct")
	dh, err := acc.DataHash(ctx)
	nd.Assert(err == nil && nd.EqBytes(dh, verifHashOfTag(tag)), "served-block-is-complete-and-correct")
	ar, err := acc.AxisRoots(ctx)
	nd.Assert(err == nil && len(ar.RowRoots) == 2*k, "served-block-is-complete-and-correct")
	for i := range ar.RowRoots {
		nd.Assert(nd.And(nd.EqBytes(ar.RowRoots[i], roots.RowRoots[i]), nd.EqBytes(ar.ColumnRoots[i], roots.ColumnRoots[i])), "served-block-is-complete-and-correct")
	}
	// samples first: the proof-caching wrapper fills its per-axis cache on this
	// path, and everything read afterwards must still be the stored block
	for _, c := range []shwap.SampleCoords{{Row: 0, Col: k}, {Row: 2*k - 1, Col: 0}} {
		s, err := acc.Sample(ctx, c)
		nd.Assert(err == nil && nd.EqBytes(s.Share.ToBytes(), cells[c.Row][c.Col].ToBytes()), "served-block-is-complete-and-correct")
	}
	for _, axis := range []rsmt2d.Axis{rsmt2d.Row, rsmt2d.Col} {
		for idx := 0; idx < 2*k; idx++ {
			half, err := acc.AxisHalf(ctx, axis, idx)
			nd.Assert(err == nil && len(half.Shares) == k, "served-block-is-complete-and-correct")
			off := 0
			if half.IsParity {
				off = k
			}
			want := make([]libshare.Share, k)
			for i := 0; i < k; i++ {
				if axis == rsmt2d.Row {
					want[i] = cells[idx][off+i]
				} else {
					want[i] = cells[off+i][idx]
				}
			}
			nd.Assert(verifSame(half.Shares, want), "served-block-is-complete-and-correct")
		}
	}
	var q1 []libshare.Share
	for r := 0; r < k; r++ {
		q1 = append(q1, cells[r][:k]...)
	}
	shs, err := acc.Shares(ctx)
	nd.Assert(err == nil && verifSame(shs, q1), "served-block-is-complete-and-correct")
	// the streamed original square, decoded the way a receiving peer does
	rd, err := acc.Reader()
	nd.Assert(err == nil, "served-block-is-complete-and-correct")
	streamed, err := eds.ReadShares(rd, libshare.ShareSize, k)
	nd.Assert(err == nil && verifSame(streamed, q1), "served-block-is-complete-and-correct")
	nd.Assert(acc.Close() == nil, "served-block-is-complete-and-correct")
}

func verifSetup() {
	shwap.VerifModelReset()
	veriffs.Reset()
	nd.Assume(veriffs.Mkdir("/s", 0o755) == nil)
	file.VerifHashOf = func(d *da.DataAvailabilityHeader) []byte { return verifHashOfTag(d.RowRoots[0][0]) }
	verifEmptyCells, verifEmptySq = shwap.VerifModelSquare(1, 0, libshare.TailPaddingNamespace)
	verifEmptyRootsV = verifTaggedRoots(0xEE, 2)
	verifRootsOf = map[*rsmt2d.ExtendedDataSquare]*share.AxisRoots{verifEmptySq: verifEmptyRootsV}
	eds.EmptyAccessor = &eds.Rsmt2D{ExtendedDataSquare: verifEmptySq}
}

// A crash at any point of a put or a removal leaves the height either absent
// or complete and correct; the same block can always be put again and is then
// fully readable; it can be removed again.
//
//verif:opts nopanic nodeadlock noreplay preempt=1 maxwall=1500 cover=crashed,completed,absent-after-crash,present-after-crash,torn,reput,empty-block,remove-crash
func VerifH_C07_CrashNeverLeavesAReadableButWrongBlock() {
	verifSetup()
	const k, tag, height = 2, 0x21, 7
	ctx := context.Background()
	ns := libshare.MustNewV0Namespace([]byte("c07-ns"))
	filled := 2 * (1 + nd.Choice(2, "filled")) // 2 or 4 filled shares
	cells, sq := shwap.VerifModelSquare(k, filled, ns)
	roots := verifTaggedRoots(tag, 2*k)
	verifRootsOf[sq] = roots
	hash := share.DataHash(verifHashOfTag(tag))
	params := &Parameters{RecentBlocksCacheSize: 0}

	st, err := NewStore(params, "/s")
	nd.Assert(err == nil, "store-opens")

	op := nd.Choice(5, "op")
	isEmpty := op == 2
	h := uint64(height)
	if isEmpty {
		h = 8
		nd.Cover("empty-block")
	}
	if op >= 3 { // removals start from a complete put
		nd.Assert(st.PutODSQ4(ctx, roots, h, sq) == nil, "put-succeeds")
	}
	veriffs.CrashAt = veriffs.Steps + nd.Choice(9, "crashAt") // 8 = beyond the operation: no crash
	veriffs.Torn = nd.Choice(2, "torn") == 1
	switch op {
	case 0:
		err = st.PutODSQ4(ctx, roots, h, sq)
	case 1:
		err = st.PutODS(ctx, roots, h, sq)
	case 2:
		err = st.PutODSQ4(ctx, verifEmptyRootsV, h, verifEmptySq)
	case 3:
		err = st.RemoveODSQ4(ctx, h, hash)
		nd.CoverIf(veriffs.Crashed, "remove-crash")
	case 4:
		err = st.RemoveQ4(ctx, h, hash)
	}
	crashed := veriffs.Crashed
	if crashed {
		nd.Cover("crashed")
		if veriffs.Torn {
			nd.Cover("torn")
		}
	} else {
		nd.Cover("completed")
		nd.Assert(err == nil, "operation-without-a-crash-succeeds")
	}

	// ---- restart on the same directory
	veriffs.Reboot()
	st2, err := NewStore(params, "/s")
	nd.Assert(err == nil, "store-reopens-after-a-crash")

	wantCells, wantK, wantRoots, wantTag := cells, k, roots, byte(tag)
	if isEmpty {
		wantCells, wantK, wantRoots, wantTag = verifEmptyCells, 1, verifEmptyRootsV, 0xEE
	}
	has, herr := st2.HasByHeight(ctx, h)
	nd.Assert(herr == nil, "existence-check-works-after-a-crash")
	acc, gerr := st2.GetByHeight(ctx, h)
	if gerr != nil {
		nd.Cover("absent-after-crash")
		nd.Assert(errors.Is(gerr, ErrNotFound), "lookup-reports-absent-or-serves-the-block")
		nd.Assert(!has, "existence-check-agrees-with-lookup")
		if !crashed && op <= 2 {
			nd.Assert(false, "completed-put-is-readable")
		}
	} else {
		nd.Cover("present-after-crash")
		nd.Assert(has, "existence-check-agrees-with-lookup")
		verifReadsCorrect(acc, wantCells, wantK, wantRoots, wantTag)
		if !crashed && op == 3 {
			nd.Assert(false, "completed-removal-removes")
		}
	}

	// ---- storing the same block again always succeeds and leaves it fully readable
	if isEmpty {
		err = st2.PutODSQ4(ctx, verifEmptyRootsV, h, verifEmptySq)
	} else {
		err = st2.PutODSQ4(ctx, roots, h, sq)
	}
	nd.Cover("reput")
	nd.Assert(err == nil, "re-put-after-a-crash-succeeds")
	acc, gerr = st2.GetByHeight(ctx, h)
	nd.Assert(gerr == nil, "re-put-block-is-readable")
	verifReadsCorrect(acc, wantCells, wantK, wantRoots, wantTag)
	if !isEmpty {
		q4, qerr := st2.HasQ4ByHash(ctx, hash)
		nd.Assert(qerr == nil && q4, "re-put-restores-the-parity-file")
		nd.Assert(file.ValidateODSQ4Size("/s/blocks/"+hash.String()+".ods", "/s/blocks/"+hash.String()+".q4", sq) == nil, "re-put-files-are-complete")
		nd.Assert(veriffs.OpenHandles() == 0, "no-file-is-left-open")
	}

	// ---- and removing it again works
	rmHash := hash
	if isEmpty {
		rmHash = verifEmptyHash()
	}
	nd.Assert(st2.RemoveODSQ4(ctx, h, rmHash) == nil, "re-remove-succeeds")
	has, herr = st2.HasByHeight(ctx, h)
	nd.Assert(herr == nil && !has, "removed-block-is-absent")
	if !isEmpty {
		_, ok1 := veriffs.Paths["/s/blocks/"+hash.String()+".ods"]
		_, ok2 := veriffs.Paths["/s/blocks/"+hash.String()+".q4"]
		nd.Assert(!ok1 && !ok2, "removal-leaves-no-files-behind")
	}
}

// A put that fails because one file-system operation reports an error (a
// transient I/O fault - the process lives on) is reported as failed and leaves
// nothing behind: neither the existence check nor a lookup - from the recent
// cache or from disk - serves the height, and putting the block again
// succeeds and leaves it fully readable.
//
//verif:opts nopanic nodeadlock noreplay preempt=1 maxwall=1500 cover=failed,completed,cached,uncached,ods-only,with-q4
func VerifH_C07_FailedPutLeavesNothingBehind() {
	verifSetup()
	const k, tag, height = 2, 0x21, 7
	ctx := context.Background()
	ns := libshare.MustNewV0Namespace([]byte("c07-ns"))
	cells, sq := shwap.VerifModelSquare(k, 4, ns)
	roots := verifTaggedRoots(tag, 2*k)
	verifRootsOf[sq] = roots
	params := &Parameters{RecentBlocksCacheSize: nd.Choice(2, "recentCache")}
	if params.RecentBlocksCacheSize > 0 {
		nd.Cover("cached")
	} else {
		nd.Cover("uncached")
	}
	st, err := NewStore(params, "/s")
	nd.Assert(err == nil, "store-opens")

	withQ4 := nd.Choice(2, "withQ4") == 1
	veriffs.FailAt = veriffs.Steps + nd.Choice(8, "failAt")
	if withQ4 {
		nd.Cover("with-q4")
		err = st.PutODSQ4(ctx, roots, height, sq)
	} else {
		nd.Cover("ods-only")
		err = st.PutODS(ctx, roots, height, sq)
	}
	failed := veriffs.Failed
	veriffs.FailAt = -1
	if !failed {
		nd.Cover("completed")
		nd.Assert(err == nil, "operation-without-a-fault-succeeds")
	} else {
		nd.Cover("failed")
	}
	has, herr := st.HasByHeight(ctx, height)
	nd.Assert(herr == nil, "existence-check-works")
	acc, gerr := st.GetByHeight(ctx, height)
	if err != nil {
		nd.Assert(!has, "a-failed-put-leaves-nothing-stored")
		nd.Assert(gerr != nil && errors.Is(gerr, ErrNotFound), "a-failed-put-leaves-nothing-stored")
	} else {
		nd.Assert(has && gerr == nil, "a-successful-put-is-readable")
		verifReadsCorrect(acc, cells, k, roots, tag)
	}
	// storing the block again succeeds and leaves it fully readable
	nd.Assert(st.PutODSQ4(ctx, roots, height, sq) == nil, "re-put-after-a-failed-put-succeeds")
	acc, gerr = st.GetByHeight(ctx, height)
	nd.Assert(gerr == nil, "re-put-block-is-readable")
	verifReadsCorrect(acc, cells, k, roots, tag)
}
