//verif:overlay share/shwap/p2p/shrex/zz_verif_c09_client.go
//verif:pkgs ./libs/utils
//verif:replace github.com/celestiaorg/go-libp2p-messenger/serde.Read github.com/celestiaorg/celestia-node/share/shwap/p2p/shrex.verifSerdeRead
//verif:noop go.opentelemetry.io/otel github.com/ipfs/go-log/v2 go.uber.org/zap github.com/libp2p/go-libp2p/core/network
//verif:bound shrex client, one request: opening the stream fails (plainly or with a resource-limit stream error) or not; writing the request fails or not; reading the status fails (plainly or resource-limit) or yields an ARBITRARY 32-bit status value; reading the response fails or not; the caller's context cancelled beforehand or not
//verif:assume the libp2p host and stream are recording models; the status message decode (serde.Read) is a model that yields the chosen status; request and response are recording models of the request / response interfaces (their real codecs are C18)
//verif:outside stream deadlines, metrics, rate limiting, the real libp2p stack
package shrex

import (
	"context"
	"errors"
	"io"
	"time"

	"github.com/gogo/protobuf/proto"
	"github.com/libp2p/go-libp2p/core/host"
	"github.com/libp2p/go-libp2p/core/network"
	"github.com/libp2p/go-libp2p/core/peer"
	"github.com/libp2p/go-libp2p/core/protocol"

	"github.com/celestiaorg/celestia-node/share/shwap"
	shrexpb "github.com/celestiaorg/celestia-node/share/shwap/p2p/shrex/pb"
	nd "github.com/celestiaorg/celestia-node/verifnd"
)

type verifCW struct {
	openErr, statusErr     int // 0 none, 1 plain, 2 resource limit
	writeErr, respErr      bool
	status                 int32
	opened, closed, resets int
	wrote, statusReads     int
	respReads              int
	usedAfterClose         bool
}

var verifC *verifCW

func verifStreamErr(kind int) error {
	if kind == 2 {
		return &network.StreamError{ErrorCode: network.StreamResourceLimitExceeded}
	}
	return errors.New("stream: failed")
}

type verifCStream struct{ network.Stream }

func (s *verifCStream) touch() {
	if verifC.closed > 0 {
		verifC.usedAfterClose = true
	}
}
func (s *verifCStream) Write(p []byte) (int, error) {
	s.touch()
	verifC.wrote++
	if verifC.writeErr {
		return 0, errors.New("stream: write failed")
	}
	return len(p), nil
}
func (s *verifCStream) Read(p []byte) (int, error)       { s.touch(); return 0, io.EOF }
func (s *verifCStream) CloseWrite() error                { s.touch(); return nil }
func (s *verifCStream) Close() error                     { verifC.closed++; return nil }
func (s *verifCStream) Reset() error                     { verifC.resets++; return nil }
func (s *verifCStream) SetDeadline(time.Time) error      { return nil }
func (s *verifCStream) SetReadDeadline(time.Time) error  { return nil }
func (s *verifCStream) SetWriteDeadline(time.Time) error { return nil }

type verifCHost struct{ host.Host }

func (h *verifCHost) NewStream(ctx context.Context, p peer.ID, pids ...protocol.ID) (network.Stream, error) {
	if verifC.openErr != 0 {
		return nil, verifStreamErr(verifC.openErr)
	}
	verifC.opened++
	return &verifCStream{}, nil
}

func verifSerdeRead(r io.Reader, msg proto.Message) (int, error) {
	verifC.statusReads++
	if verifC.closed > 0 {
		verifC.usedAfterClose = true
	}
	if verifC.statusErr != 0 {
		return 0, verifStreamErr(verifC.statusErr)
	}
	m, ok := msg.(*shrexpb.Response)
	if !ok {
		return 0, errors.New("stub serde.Read: unexpected message type")
	}
	m.Status = shrexpb.Status(verifC.status)
	return 2, nil
}

type verifCReq struct{}

func (verifCReq) WriteTo(w io.Writer) (int64, error) {
	n, err := w.Write([]byte{1, 2, 3})
	return int64(n), err
}
func (verifCReq) ReadFrom(io.Reader) (int64, error) { return 0, nil }
func (verifCReq) Name() string                      { return "sample_v0" }
func (verifCReq) Height() uint64                    { return 7 }
func (verifCReq) Validate() error                   { return nil }
func (verifCReq) ResponseSize(int) int              { return 0 }
func (verifCReq) ResponseReader(context.Context, shwap.Accessor) (io.Reader, error) {
	return nil, errors.New("unused")
}

type verifCResp struct{}

func (verifCResp) ReadFrom(r io.Reader) (int64, error) {
	verifC.respReads++
	if verifC.closed > 0 {
		verifC.usedAfterClose = true
	}
	if verifC.respErr {
		return 1, errors.New("container: bad encoding")
	}
	return 10, nil
}

// The client reports success only for a complete OK response; 'not found',
// 'internal' and every other status are reported as such and the response is
// not read; resource-limit failures are recognisable; the stream it opened is
// closed exactly once and not used afterwards.
//
//verif:opts nopanic nodeadlock noreplay cover=ok,notfound,internal,invalid,exhausted,cancelled
func VerifH_C09_ClientMapsEveryOutcome() {
	verifC = &verifCW{
		openErr: nd.Choice(3, "openErr"), statusErr: nd.Choice(3, "statusErr"),
		writeErr: nd.Bool("writeErr"), respErr: nd.Bool("respErr"), status: nd.I32("status"),
	}
	params := &ClientParams{Parameters: &Parameters{ReadTimeout: time.Second, WriteTimeout: time.Second}}
	params.WithNetworkID("net")
	c := &Client{params: params, host: &verifCHost{}}
	ctx, cancel := context.WithCancel(context.Background())
	defer cancel()
	cancelled := nd.Choice(2, "cancelled") == 1
	if cancelled {
		cancel()
	}

	err := c.Get(ctx, verifCReq{}, verifCResp{}, peer.ID("p"))
	nd.RunOthers() // context.AfterFunc callback, if any

	w := verifC
	nd.Assert(w.closed == w.opened && !w.usedAfterClose, "stream-is-closed-once-and-not-used-afterwards")
	if cancelled {
		nd.Cover("cancelled")
		if err != nil {
			nd.Assert(errors.Is(err, context.Canceled), "cancellation-is-visible-in-the-error")
		}
	}
	switch {
	case w.openErr != 0:
		nd.Assert(err != nil && w.opened == 0 && w.respReads == 0, "failed-open-is-an-error")
		nd.Assert(errors.Is(err, ErrResourceExhausted) == (w.openErr == 2), "resource-limit-is-recognisable")
	case w.writeErr:
		nd.Assert(err != nil && w.respReads == 0, "failed-request-write-is-an-error")
	case w.statusErr != 0:
		nd.Assert(err != nil && w.respReads == 0, "failed-status-read-is-an-error")
		nd.Assert(errors.Is(err, ErrResourceExhausted) == (w.statusErr == 2), "resource-limit-is-recognisable")
		if w.statusErr == 2 {
			nd.Cover("exhausted")
		}
	case w.status == int32(shrexpb.Status_OK):
		nd.Cover("ok")
		nd.Assert(w.respReads == 1, "ok-response-is-read")
		nd.Assert((err == nil) == !w.respErr, "success-only-for-a-complete-ok-response")
		if w.respErr {
			nd.Assert(errors.Is(err, ErrInvalidResponse), "undecodable-response-is-invalid-response")
		}
	case w.status == int32(shrexpb.Status_NOT_FOUND):
		nd.Cover("notfound")
		nd.Assert(errors.Is(err, ErrNotFound) && w.respReads == 0, "not-found-is-reported-as-not-found")
	case w.status == int32(shrexpb.Status_INTERNAL):
		nd.Cover("internal")
		nd.Assert(errors.Is(err, ErrInternalServer) && !errors.Is(err, ErrNotFound) && w.respReads == 0, "internal-is-reported-as-internal")
	default:
		nd.Cover("invalid")
		nd.Assert(errors.Is(err, ErrInvalidRequest) && !errors.Is(err, ErrNotFound) && w.respReads == 0, "unknown-status-is-not-success-and-not-not-found")
	}
	if err == nil {
		nd.Assert(w.openErr == 0 && !w.writeErr && w.statusErr == 0 && w.status == int32(shrexpb.Status_OK) && !w.respErr, "success-only-for-a-complete-ok-response")
	}
}
