//verif:overlay share/shwap/p2p/bitswap/zz_verif_c06_bsverified.go
//verif:pkgs github.com/ipfs/go-block-format github.com/ipfs/go-cid github.com/multiformats/go-multihash github.com/multiformats/go-multihash/core github.com/multiformats/go-varint ./share/shwap ./share ./libs/utils ./header ./share/availability github.com/celestiaorg/nmt github.com/celestiaorg/go-square/v4/share
//verif:replace github.com/celestiaorg/celestia-node/share/shwap/p2p/bitswap.unmarshalProto github.com/celestiaorg/celestia-node/share/shwap/p2p/bitswap.verifBSUnmarshalProto
//verif:replace (*github.com/celestiaorg/celestia-node/share/shwap/pb.Sample).Unmarshal github.com/celestiaorg/celestia-node/share/shwap/p2p/bitswap.verifBSSampleUnmarshal
//verif:replace github.com/celestiaorg/celestia-node/share/shwap.SampleFromProto github.com/celestiaorg/celestia-node/share/shwap/p2p/bitswap.verifBSSampleFromProto
//verif:replace (github.com/celestiaorg/celestia-node/share/shwap.Sample).Verify github.com/celestiaorg/celestia-node/share/shwap/p2p/bitswap.verifBSSampleVerify
//verif:replace (*github.com/celestiaorg/celestia-node/share/shwap/pb.Row).Unmarshal github.com/celestiaorg/celestia-node/share/shwap/p2p/bitswap.verifBSRowUnmarshal
//verif:replace github.com/celestiaorg/celestia-node/share/shwap.RowFromProto github.com/celestiaorg/celestia-node/share/shwap/p2p/bitswap.verifBSRowFromProto
//verif:replace (*github.com/celestiaorg/celestia-node/share/shwap.Row).Verify github.com/celestiaorg/celestia-node/share/shwap/p2p/bitswap.verifBSRowVerify
//verif:include ../C10/mhreg.go
//verif:noop go.opentelemetry.io/otel github.com/celestiaorg/celestia-app/v9/pkg/da github.com/ipfs/go-log/v2 go.uber.org/zap
//verif:bound bitswap getter: GetSamples for 2 coordinates and GetRow, real Getter + session pool + Fetch + hasher + block UnmarshalFn; the exchange delivers, per requested CID, 0..2 blocks in any order, each decodable and either verifying or not (an honest peer after a lying one and vice versa), and may end the context before, between or after deliveries
//verif:assume the exchange is a model that - like Bitswap - runs every received block through the registered hasher (hasher.write) and hands it to the session only when the hasher accepts; container decode and verification are ideal verdicts that tag every decoded container with the block it came from
package bitswap

import (
	"context"
	"errors"
	"time"

	"github.com/ipfs/boxo/blockstore"
	"github.com/ipfs/boxo/exchange"
	blocks "github.com/ipfs/go-block-format"
	"github.com/ipfs/go-cid"

	"github.com/celestiaorg/celestia-app/v9/pkg/da"
	libshare "github.com/celestiaorg/go-square/v4/share"
	"github.com/celestiaorg/nmt"

	"github.com/celestiaorg/celestia-node/header"
	"github.com/celestiaorg/celestia-node/share"
	"github.com/celestiaorg/celestia-node/share/shwap"
	shwappb "github.com/celestiaorg/celestia-node/share/shwap/pb"
	nd "github.com/celestiaorg/celestia-node/verifnd"
)

type verifDelivery struct {
	cid      cid.Cid
	verifies bool
}

var (
	verifDeliveries []verifDelivery
	verifCurK       int
	verifProofOf    map[*nmt.Proof]int
)

func verifBSUnmarshalProto(data []byte) (cid.Cid, []byte, error) {
	k := int(data[0])
	return verifDeliveries[k].cid, []byte{data[0]}, nil
}

func verifBSSampleUnmarshal(s *shwappb.Sample, data []byte) error {
	verifCurK = int(data[0])
	return nil
}

func verifBSShare(k int) libshare.Share {
	raw := make([]byte, libshare.ShareSize)
	copy(raw, libshare.MustNewV0Namespace([]byte("c06")).Bytes())
	raw[40] = byte(k)
	sh, _ := libshare.NewShare(raw)
	return sh
}

func verifBSSampleFromProto(s *shwappb.Sample) (shwap.Sample, error) {
	p := nmt.NewInclusionProof(0, 1, nil, true)
	verifProofOf[&p] = verifCurK
	return shwap.Sample{Share: verifBSShare(verifCurK), Proof: &p}, nil
}

func verifBSSampleVerify(s shwap.Sample, roots *share.AxisRoots, rowIdx, colIdx int) error {
	k, ok := verifProofOf[s.Proof]
	if ok && verifDeliveries[k].verifies {
		return nil
	}
	return errors.New("stub: sample does not verify")
}

func verifBSRowUnmarshal(r *shwappb.Row, data []byte) error {
	verifCurK = int(data[0])
	return nil
}

func verifBSRowFromProto(r *shwappb.Row) (shwap.Row, error) {
	return shwap.NewRow([]libshare.Share{verifBSShare(verifCurK), verifBSShare(verifCurK)}, shwap.Both), nil
}

func verifBSRowVerify(r *shwap.Row, roots *share.AxisRoots, idx int) error {
	shs, _ := r.Shares()
	if len(shs) > 0 && verifDeliveries[int(shs[0].ToBytes()[40])].verifies {
		return nil
	}
	return errors.New("stub: row does not verify")
}

// the exchange: per requested CID 0..2 deliveries, each pushed through the
// registered hasher first (as Bitswap does when it recomputes the block's CID)
type verifBSExchange struct {
	cancel context.CancelFunc
	idSize int
}

func (e *verifBSExchange) GetBlock(context.Context, cid.Cid) (blocks.Block, error) {
	return nil, errors.New("unused")
}
func (e *verifBSExchange) NotifyNewBlocks(context.Context, ...blocks.Block) error { return nil }
func (e *verifBSExchange) Close() error                                           { return nil }
func (e *verifBSExchange) NewSession(context.Context) exchange.Fetcher            { return e }

func (e *verifBSExchange) GetBlocks(ctx context.Context, cids []cid.Cid) (<-chan blocks.Block, error) {
	ch := make(chan blocks.Block, 2*len(cids))
	accepted := map[cid.Cid]bool{}
	for round := 0; round < 2; round++ {
		for _, c := range cids {
			if nd.Choice(2, "cancel") == 1 {
				e.cancel()
				close(ch)
				return ch, nil
			}
			if nd.Choice(2, "deliver") == 0 {
				continue
			}
			k := len(verifDeliveries)
			verifDeliveries = append(verifDeliveries, verifDelivery{cid: c, verifies: nd.Choice(2, "verifies") == 1})
			data := []byte{byte(k)}
			// the hasher Bitswap picks: the one registered for the multihash
			// code of the CID the block is announced under
			hs := verifHasherFor(c.Prefix().MhType)
			if _, err := hs.Write(data); err != nil {
				continue // Bitswap drops a block whose hash check fails
			}
			b, _ := blocks.NewBlockWithCid(data, c)
			accepted[c] = true
			ch <- b
		}
	}
	// Bitswap closes the channel only once every wanted block arrived or the
	// context ended
	if len(accepted) < len(cids) || nd.Choice(2, "cancel") == 1 {
		e.cancel()
	}
	close(ch)
	return ch, nil
}

func verifBSHeader(size int) *header.ExtendedHeader {
	roots := make([][]byte, size)
	for i := range roots {
		roots[i] = make([]byte, 90)
	}
	eh := &header.ExtendedHeader{DAH: &da.DataAvailabilityHeader{RowRoots: roots, ColumnRoots: roots}}
	eh.RawHeader.Height = 7
	eh.RawHeader.Time = time.Now()
	return eh
}

type verifBSStore struct{ blockstore.Blockstore }

func (s *verifBSStore) Put(context.Context, blocks.Block) error { return nil }

func verifBSGetter(ex *verifBSExchange) *Getter {
	g := NewGetter(ex, &verifBSStore{}, 1<<62)
	g.Start()
	return g
}

// Every non-empty sample GetSamples returns - with or without an error - came
// from a block that verified; no error means every requested sample.
//
//verif:opts nopanic nodeadlock noreplay cover=partial,complete,lying-then-honest,nothing
func VerifH_C06_BitswapSamplesAreVerified() {
	verifDeliveries, verifProofOf = nil, map[*nmt.Proof]int{}
	ctx, cancel := context.WithCancel(context.Background())
	defer cancel()
	ex := &verifBSExchange{cancel: cancel, idSize: shwap.SampleIDSize}
	g := verifBSGetter(ex)
	eh := verifBSHeader(4)
	idx := []shwap.SampleCoords{{Row: 0, Col: 1}, {Row: 2, Col: 3}}
	want := make([]cid.Cid, len(idx))
	for i, c := range idx {
		b, err := NewEmptySampleBlock(7, c, 4)
		nd.Assume(err == nil)
		want[i] = b.CID()
	}

	smpls, err := g.GetSamples(ctx, eh, idx)

	got := 0
	lied := false
	for _, d := range verifDeliveries {
		if !d.verifies {
			lied = true
		}
	}
	for i, s := range smpls {
		if s.IsEmpty() {
			continue
		}
		got++
		k, ok := verifProofOf[s.Proof]
		nd.Assert(ok, "returned-sample-came-from-a-received-block")
		nd.Assert(verifDeliveries[k].verifies, "returned-sample-was-verified")
		nd.Assert(verifDeliveries[k].cid.Equals(want[i]), "returned-sample-is-for-the-requested-coordinate")
	}
	if err == nil {
		nd.Assert(len(smpls) == len(idx) && got == len(idx), "success-means-every-requested-sample")
		nd.Cover("complete")
		if lied {
			nd.Cover("lying-then-honest")
		}
	} else if got > 0 {
		nd.Cover("partial")
	} else {
		nd.Cover("nothing")
	}
}

// GetRow hands back a row only if it came from a block that verified.
//
//verif:opts nopanic nodeadlock noreplay cover=complete,failed,lying-then-honest
func VerifH_C06_BitswapRowIsVerified() {
	verifDeliveries, verifProofOf = nil, map[*nmt.Proof]int{}
	ctx, cancel := context.WithCancel(context.Background())
	defer cancel()
	ex := &verifBSExchange{cancel: cancel, idSize: shwap.RowIDSize}
	g := verifBSGetter(ex)
	eh := verifBSHeader(4)

	row, err := g.GetRow(ctx, eh, 1)

	lied := false
	for _, d := range verifDeliveries {
		if !d.verifies {
			lied = true
		}
	}
	if err != nil {
		nd.Cover("failed")
		nd.Assert(row.IsEmpty(), "no-data-next-to-an-error")
		return
	}
	nd.Cover("complete")
	nd.Assert(!row.IsEmpty(), "success-means-the-requested-row")
	shs, _ := row.Shares()
	nd.Assert(verifDeliveries[int(shs[0].ToBytes()[40])].verifies, "returned-row-was-verified")
	if lied {
		nd.Cover("lying-then-honest")
	}
}
