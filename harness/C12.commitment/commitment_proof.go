//verif:overlay blob/zz_verif_c12_commitment.go
//verif:pkgs github.com/celestiaorg/nmt github.com/celestiaorg/go-square/v4/inclusion github.com/celestiaorg/celestia-app/v9/pkg/proof
//verif:init github.com/celestiaorg/celestia-node/blob
//verif:replace github.com/celestiaorg/go-square/merkle.HashFromByteSlices github.com/celestiaorg/celestia-node/blob.verifHashList
//verif:replace (*github.com/celestiaorg/celestia-app/v9/pkg/proof.Proof).Verify github.com/celestiaorg/celestia-node/blob.verifRowProofVerify
//verif:replace (github.com/celestiaorg/nmt.Proof).VerifySubtreeRootInclusion github.com/celestiaorg/celestia-node/blob.verifSubtreeInclusion
//verif:replace github.com/celestiaorg/nmt.NewNmtHasher github.com/celestiaorg/celestia-node/blob.verifNewHasher
//verif:bound CommitmentProof.Verify on an ARBITRARY proof shape: 0..3 subtree roots, 0..2 subtree-root proofs (each over a share range start 0..2, length 0..2), 0..2 row roots, 0..2 row proofs, StartRow/EndRow arbitrary 32-bit values; data root and commitment empty or not; every library verdict (row-root Merkle proof, subtree-root inclusion) an arbitrary boolean
//verif:assume merkle.HashFromByteSlices is an ideal hash of the list (an arbitrary 8-byte digest); the Merkle proof of a row root and nmt's VerifySubtreeRootInclusion are ideal verdicts that record their operands; the REAL celestia-app RowProof.Validate/VerifyProof, nmt.ToLeafRanges and inclusion.SubTreeWidth code is executed
package blob

import (
	"errors"
	"hash"

	"github.com/celestiaorg/celestia-app/v9/pkg/appconsts"
	"github.com/celestiaorg/celestia-app/v9/pkg/proof"
	"github.com/celestiaorg/go-square/v4/inclusion"
	"github.com/celestiaorg/nmt"

	nd "github.com/celestiaorg/celestia-node/verifnd"
)

type verifInclCall struct {
	roots []int // tags (first byte) of the subtree roots handed in
	width int
	row   int // tag of the row root
	start int
	end   int
}

var (
	verifListDigest []byte
	verifHashedTags []int
	verifRowVerdict map[*proof.Proof]bool
	verifRowCalls   []struct {
		p    *proof.Proof
		root []byte
		leaf int
	}
	verifInclCalls   []verifInclCall
	verifInclVerdict bool
)

func verifBaseHash() hash.Hash { return nil }

func verifNewHasher(h hash.Hash, nsLen int, ignoreMax bool) *nmt.NmtHasher { return nil }

func verifHashList(items [][]byte) []byte {
	verifHashedTags = nil
	for _, it := range items {
		verifHashedTags = append(verifHashedTags, int(it[0]))
	}
	if verifListDigest == nil {
		verifListDigest = nd.Bytes(8, "H(subtreeRoots)")
	}
	return append([]byte(nil), verifListDigest...)
}

func verifRowProofVerify(p *proof.Proof, rootHash, leaf []byte) error {
	verifRowCalls = append(verifRowCalls, struct {
		p    *proof.Proof
		root []byte
		leaf int
	}{p, rootHash, int(leaf[0])})
	if verifRowVerdict[p] {
		return nil
	}
	return errors.New("stub: row root is not under the data root")
}

func verifSubtreeInclusion(p nmt.Proof, nth *nmt.NmtHasher, subtreeRoots [][]byte, width int, root []byte) (bool, error) {
	c := verifInclCall{width: width, row: int(root[0]), start: p.Start(), end: p.End()}
	for _, r := range subtreeRoots {
		c.roots = append(c.roots, int(r[0]))
	}
	verifInclCalls = append(verifInclCalls, c)
	return verifInclVerdict, nil
}

// A commitment proof verifies only if it is well-formed (as many subtree-root
// proofs as rows, StartRow..EndRow naming exactly those rows - without 32-bit
// wrap-around -, at least one row), the commitment is the hash of the subtree
// roots, every row root is proven under the data root, and every subtree root
// is checked - once, in order, none skipped - against the row it claims.
//
//verif:opts nopanic nodeadlock noreplay cover=accepted,rejected,two-rows
func VerifH_C12_CommitmentProofVerify() {
	appconsts.NewBaseHashFunc = verifBaseHash
	verifListDigest, verifHashedTags, verifRowCalls, verifInclCalls = nil, nil, nil, nil
	verifRowVerdict = map[*proof.Proof]bool{}
	verifInclVerdict = nd.Bool("subtreeInclusionVerdict")

	cp := &CommitmentProof{}
	nSub := nd.Choice(4, "subtreeRoots")
	for i := 0; i < nSub; i++ {
		cp.SubtreeRoots = append(cp.SubtreeRoots, []byte{byte(10 + i), 1, 2})
	}
	nProofs := nd.Choice(3, "subtreeRootProofs")
	total := 0
	for i := 0; i < nProofs; i++ {
		start := nd.Choice(3, "start")
		end := start + nd.Choice(3, "len")
		total += end - start
		p := nmt.NewInclusionProof(start, end, nil, true)
		cp.SubtreeRootProofs = append(cp.SubtreeRootProofs, &p)
	}
	nRoots := nd.Choice(3, "rowRoots")
	for i := 0; i < nRoots; i++ {
		cp.RowProof.RowRoots = append(cp.RowProof.RowRoots, []byte{byte(50 + i), 7})
	}
	nRowProofs := nd.Choice(3, "rowProofs")
	for i := 0; i < nRowProofs; i++ {
		p := &proof.Proof{Total: 4, Index: int64(i)}
		verifRowVerdict[p] = nd.Bool("rowProofVerdict")
		cp.RowProof.Proofs = append(cp.RowProof.Proofs, p)
	}
	cp.RowProof.StartRow, cp.RowProof.EndRow = nd.U32("startRow"), nd.U32("endRow")

	var dataRoot, commitment []byte
	if nd.Choice(2, "dataRootEmpty") == 0 {
		dataRoot = []byte{0xD0, 1}
	}
	if nd.Choice(2, "commitmentEmpty") == 0 {
		commitment = nd.Bytes(8, "commitment")
	}

	err := cp.Verify(dataRoot, commitment)
	if err != nil {
		nd.Cover("rejected")
		return
	}
	nd.Cover("accepted")
	if nRoots == 2 {
		nd.Cover("two-rows")
	}
	nd.Assert(len(dataRoot) > 0 && len(commitment) > 0, "empty-root-or-commitment-is-refused")
	// shape
	nd.Assert(nRoots >= 1 && nProofs == nRoots && nRowProofs == nRoots, "one-subtree-proof-and-one-row-proof-per-row")
	nd.Assert(cp.RowProof.EndRow >= cp.RowProof.StartRow &&
		uint64(cp.RowProof.EndRow)-uint64(cp.RowProof.StartRow)+1 == uint64(nRoots), "row-range-names-exactly-the-row-roots")
	// commitment = H(subtree roots), all of them, in order
	nd.Assert(nd.EqBytes(commitment, verifListDigest), "commitment-is-the-hash-of-the-subtree-roots")
	nd.Assert(len(verifHashedTags) == nSub, "all-subtree-roots-are-hashed")
	for i, t := range verifHashedTags {
		nd.Assert(t == 10+i, "all-subtree-roots-are-hashed")
	}
	// every row root proven under the data root
	for i, p := range cp.RowProof.Proofs {
		nd.Assert(verifRowVerdict[p], "every-row-root-is-proven-under-the-data-root")
		found := false
		for _, c := range verifRowCalls {
			if c.p == p && c.leaf == 50+i && len(c.root) == 2 && c.root[0] == 0xD0 {
				found = true
			}
		}
		nd.Assert(found, "every-row-root-is-proven-under-the-data-root")
	}
	// every subtree root checked once, in order, against its row
	nd.Assert(verifInclVerdict, "subtree-roots-are-proven-under-their-rows")
	width, werr := inclusion.SubTreeWidth(total, subtreeRootThreshold)
	nd.Assert(werr == nil, "subtree-width")
	nd.Assert(len(verifInclCalls) == nProofs, "one-inclusion-check-per-subtree-root-proof")
	next := 10
	for i, c := range verifInclCalls {
		nd.Assert(c.row == 50+i && c.width == width, "subtree-roots-are-checked-against-the-row-they-claim")
		nd.Assert(c.start == cp.SubtreeRootProofs[i].Start() && c.end == cp.SubtreeRootProofs[i].End(), "inclusion-check-uses-its-own-proof")
		nd.Assert(len(c.roots) >= 1, "no-empty-inclusion-check")
		for _, t := range c.roots {
			nd.Assert(t == next, "subtree-roots-are-consumed-in-order-none-skipped")
			next++
		}
	}
	nd.Assert(next == 10+nSub, "every-subtree-root-is-checked")
}
