package shwap

import nd "github.com/celestiaorg/celestia-node/verifnd"

func VerifH_C18_SampleID() {
	h, row, col, size := nd.U64("height"), nd.Int("row"), nd.Int("col"), nd.Int("edsSize")
	nd.Assume(size >= 0 && size <= 1024)
	id, err := NewSampleID(h, SampleCoords{Row: row, Col: col}, size)
	if err != nil {
		nd.Cover("refused")
		return
	}
	nd.Cover("accepted")
	nd.Assert(0 <= id.RowIndex && id.RowIndex < size && 0 <= id.ShareIndex && id.ShareIndex < size, "in-square")
	b, err := id.MarshalBinary()
	nd.Assert(err == nil && len(b) == SampleIDSize, "encodes")
	back, err := SampleIDFromBinary(b)
	nd.Assert(err == nil && back.Equals(id), "roundtrip")
}
