//verif:overlay share/shwap/zz_verif_c18.go
//verif:pkgs github.com/celestiaorg/go-square/v4/share
//verif:init github.com/celestiaorg/go-square/v4/share github.com/celestiaorg/celestia-node/share/shwap
//verif:bound EDS width parameter: 0..1024 (2x the protocol maximum of 512); ODS width for range ids: 0..512; every id field full-width symbolic (height uint64, indices int64, namespace 29 bytes)
//verif:bound decoder inputs: arbitrary byte strings of length size-1, size, size+1 for each id type
//verif:outside protobuf / length-delimited / JSON container codecs (generated or reflection-based; not encoded symbolically)
package shwap

import (
	"bytes"

	libshare "github.com/celestiaorg/go-square/v4/share"

	nd "github.com/celestiaorg/celestia-node/verifnd"
)

// ---- constructor -> encode -> decode (no encoder alters a field) ----------

//verif:opts nopanic cover=accepted,refused
func VerifH_C18_EdsID() {
	h := nd.U64("height")
	id, err := NewEdsID(h)
	if err != nil {
		nd.Cover("refused")
		nd.Assert(h == 0, "refused-only-zero-height")
		return
	}
	nd.Cover("accepted")
	b, err := id.MarshalBinary()
	nd.Assert(err == nil && len(b) == EdsIDSize, "encodes")
	back, err := EdsIDFromBinary(b)
	nd.Assert(err == nil, "decodes")
	nd.Assert(back.Equals(id) && back.Height() == h, "roundtrip")
}

//verif:opts nopanic cover=accepted,refused
func VerifH_C18_RowID() {
	h, row, size := nd.U64("height"), nd.Int("row"), nd.Int("edsSize")
	nd.Assume(size >= 0 && size <= 1024)
	id, err := NewRowID(h, row, size)
	if err != nil {
		nd.Cover("refused")
		return
	}
	nd.Cover("accepted")
	nd.Assert(0 <= id.RowIndex && id.RowIndex < size, "in-square")
	nd.Assert(id.RowIndex == row && id.Height() == h, "fields-kept")
	b, err := id.MarshalBinary()
	nd.Assert(err == nil && len(b) == RowIDSize, "encodes")
	back, err := RowIDFromBinary(b)
	nd.Assert(err == nil, "decodes")
	nd.Assert(back.Equals(id), "roundtrip")
}

//verif:opts nopanic cover=accepted,refused
func VerifH_C18_SampleID() {
	h, row, col, size := nd.U64("height"), nd.Int("row"), nd.Int("col"), nd.Int("edsSize")
	nd.Assume(size >= 0 && size <= 1024)
	id, err := NewSampleID(h, SampleCoords{Row: row, Col: col}, size)
	if err != nil {
		nd.Cover("refused")
		return
	}
	nd.Cover("accepted")
	nd.Assert(0 <= id.RowIndex && id.RowIndex < size && 0 <= id.ShareIndex && id.ShareIndex < size, "in-square")
	nd.Assert(id.RowIndex == row && id.ShareIndex == col && id.Height() == h, "fields-kept")
	b, err := id.MarshalBinary()
	nd.Assert(err == nil && len(b) == SampleIDSize, "encodes")
	back, err := SampleIDFromBinary(b)
	nd.Assert(err == nil, "decodes")
	nd.Assert(back.Equals(id), "roundtrip")
}

func symNamespace(tag string) (libshare.Namespace, []byte, bool) {
	raw := nd.Bytes(libshare.NamespaceSize, tag)
	ns, err := libshare.NewNamespaceFromBytes(raw)
	return ns, raw, err == nil
}

//verif:opts nopanic cover=accepted,refused
func VerifH_C18_NamespaceDataID() {
	h := nd.U64("height")
	ns, raw, ok := symNamespace("ns")
	if !ok {
		nd.Cover("refused")
		return
	}
	id, err := NewNamespaceDataID(h, ns)
	if err != nil {
		nd.Cover("refused")
		return
	}
	nd.Cover("accepted")
	b, err := id.MarshalBinary()
	nd.Assert(err == nil && len(b) == NamespaceDataIDSize, "encodes")
	nd.Assert(bytes.Equal(b[EdsIDSize:], raw), "namespace-bytes-kept")
	back, err := NamespaceDataIDFromBinary(b)
	nd.Assert(err == nil, "decodes")
	nd.Assert(back.Equals(id) && back.Height() == h, "roundtrip")
}

//verif:opts nopanic cover=accepted,refused
func VerifH_C18_RowNamespaceDataID() {
	h, row, size := nd.U64("height"), nd.Int("row"), nd.Int("edsSize")
	nd.Assume(size >= 0 && size <= 1024)
	ns, raw, ok := symNamespace("ns")
	if !ok {
		nd.Cover("refused")
		return
	}
	id, err := NewRowNamespaceDataID(h, row, ns, size)
	if err != nil {
		nd.Cover("refused")
		return
	}
	nd.Cover("accepted")
	nd.Assert(0 <= id.RowIndex && id.RowIndex < size, "in-square")
	b, err := id.MarshalBinary()
	nd.Assert(err == nil && len(b) == RowNamespaceDataIDSize, "encodes")
	nd.Assert(bytes.Equal(b[RowIDSize:], raw), "namespace-bytes-kept")
	back, err := RowNamespaceDataIDFromBinary(b)
	nd.Assert(err == nil, "decodes")
	nd.Assert(back.Equals(id) && back.RowIndex == row && back.Height() == h, "roundtrip")
}

//verif:opts nopanic cover=accepted,refused
func VerifH_C18_RangeID() {
	h, from, to, ods := nd.U64("height"), nd.Int("from"), nd.Int("to"), nd.Int("odsSize")
	nd.Assume(ods >= 0 && ods <= 512)
	id, err := NewRangeNamespaceDataID(EdsID{height: h}, from, to, ods)
	if err != nil {
		nd.Cover("refused")
		return
	}
	nd.Cover("accepted")
	nd.Assert(0 <= id.From && id.From < id.To && id.To <= ods*ods, "in-square")
	b, err := id.MarshalBinary()
	nd.Assert(err == nil && len(b) == RangeNamespaceDataIDSize, "encodes")
	back, err := RangeNamespaceDataIDFromBinary(b)
	nd.Assert(err == nil, "decodes")
	nd.Assert(back.Equals(id) && back.From == from && back.To == to, "roundtrip")
}

// The V0 identifier (bitswap range block) for every square the protocol
// allows (ODS width <= 512, i.e. share indices up to 262144).
//
//verif:opts nopanic cover=accepted,refused
func VerifH_C18_RangeIDV0() {
	h, from, to, ods := nd.U64("height"), nd.Int("from"), nd.Int("to"), nd.Int("odsSize")
	nd.Assume(ods >= 0 && ods <= 512)
	id, err := NewRangeNamespaceDataIDV0(EdsID{height: h}, from, to, ods)
	if err != nil {
		nd.Cover("refused")
		return
	}
	nd.Cover("accepted")
	b, err := id.MarshalBinary()
	if err != nil {
		// an encoder may refuse what it cannot represent; it must not alter it
		nd.Cover("encoder-refused")
		return
	}
	nd.Assert(len(b) == RangeNamespaceDataIDV0Size, "encodes")
	back, err := RangeNamespaceDataIDV0FromBinary(b)
	nd.Assert(err == nil, "decodes")
	nd.Assert(back.From == from && back.To == to && back.Height() == h, "roundtrip-fields-unaltered")
}

// ---- arbitrary bytes -> decode (refuse or canonical) ----------------------

func wire(size int) []byte {
	n := size - 1 + nd.Choice(3, "len")
	return nd.Bytes(n, "wire")
}

//verif:opts nopanic cover=accepted,refused
func VerifH_C18_EdsIDBytes() {
	w := wire(EdsIDSize)
	id, err := EdsIDFromBinary(w)
	if err != nil {
		nd.Cover("refused")
		return
	}
	nd.Cover("accepted")
	nd.Assert(len(w) == EdsIDSize, "length-checked")
	nd.Assert(id.Validate() == nil, "valid")
	b, err := id.MarshalBinary()
	nd.Assert(err == nil && bytes.Equal(b, w), "canonical")
}

//verif:opts nopanic cover=accepted,refused
func VerifH_C18_RowIDBytes() {
	w := wire(RowIDSize)
	id, err := RowIDFromBinary(w)
	if err != nil {
		nd.Cover("refused")
		return
	}
	nd.Cover("accepted")
	nd.Assert(len(w) == RowIDSize, "length-checked")
	nd.Assert(id.Validate() == nil, "valid")
	b, err := id.MarshalBinary()
	nd.Assert(err == nil && bytes.Equal(b, w), "canonical")
	size := nd.Int("edsSize")
	nd.Assume(size >= 0 && size <= 1024)
	if id.Verify(size) == nil {
		nd.Assert(id.RowIndex >= 0 && id.RowIndex < size, "verify-in-square")
	}
}

//verif:opts nopanic cover=accepted,refused
func VerifH_C18_SampleIDBytes() {
	w := wire(SampleIDSize)
	id, err := SampleIDFromBinary(w)
	if err != nil {
		nd.Cover("refused")
		return
	}
	nd.Cover("accepted")
	nd.Assert(len(w) == SampleIDSize, "length-checked")
	nd.Assert(id.Validate() == nil, "valid")
	b, err := id.MarshalBinary()
	nd.Assert(err == nil && bytes.Equal(b, w), "canonical")
	size := nd.Int("edsSize")
	nd.Assume(size >= 0 && size <= 1024)
	if id.Verify(size) == nil {
		nd.Assert(id.RowIndex >= 0 && id.RowIndex < size && id.ShareIndex >= 0 && id.ShareIndex < size, "verify-in-square")
	}
}

//verif:opts nopanic cover=accepted,refused
func VerifH_C18_NamespaceDataIDBytes() {
	w := wire(NamespaceDataIDSize)
	id, err := NamespaceDataIDFromBinary(w)
	if err != nil {
		nd.Cover("refused")
		return
	}
	nd.Cover("accepted")
	nd.Assert(len(w) == NamespaceDataIDSize, "length-checked")
	nd.Assert(id.Validate() == nil, "valid")
	b, err := id.MarshalBinary()
	nd.Assert(err == nil && bytes.Equal(b, w), "canonical")
}

//verif:opts nopanic cover=accepted,refused
func VerifH_C18_RowNamespaceDataIDBytes() {
	w := wire(RowNamespaceDataIDSize)
	id, err := RowNamespaceDataIDFromBinary(w)
	if err != nil {
		nd.Cover("refused")
		return
	}
	nd.Cover("accepted")
	nd.Assert(len(w) == RowNamespaceDataIDSize, "length-checked")
	nd.Assert(id.Validate() == nil, "valid")
	b, err := id.MarshalBinary()
	nd.Assert(err == nil && bytes.Equal(b, w), "canonical")
}

//verif:opts nopanic cover=accepted,refused
func VerifH_C18_RangeIDBytes() {
	w := wire(RangeNamespaceDataIDSize)
	id, err := RangeNamespaceDataIDFromBinary(w)
	if err != nil {
		nd.Cover("refused")
		return
	}
	nd.Cover("accepted")
	nd.Assert(len(w) == RangeNamespaceDataIDSize, "length-checked")
	nd.Assert(id.Validate() == nil, "valid")
	b, err := id.MarshalBinary()
	nd.Assert(err == nil && bytes.Equal(b, w), "canonical")
	ods := nd.Int("odsSize")
	nd.Assume(ods >= 0 && ods <= 512)
	if id.Verify(ods) == nil {
		nd.Assert(0 <= id.From && id.From < id.To && id.To <= ods*ods, "verify-in-square")
	}
}

//verif:opts nopanic cover=accepted,refused
func VerifH_C18_RangeIDV0Bytes() {
	w := wire(RangeNamespaceDataIDV0Size)
	id, err := RangeNamespaceDataIDV0FromBinary(w)
	if err != nil {
		nd.Cover("refused")
		return
	}
	nd.Cover("accepted")
	nd.Assert(len(w) == RangeNamespaceDataIDV0Size, "length-checked")
	nd.Assert(id.Validate() == nil, "valid")
	b, err := id.MarshalBinary()
	nd.Assert(err == nil && bytes.Equal(b, w), "canonical")
}

// ---- coordinate arithmetic -------------------------------------------------
//
// Symbolic-by-symbolic multiplication/division (row*size+col, idx/size) is the
// one kernel here no back end decides at full width (probed: z3 4.8.12/5.1.0
// and cvc5 in bit-blasting and integer encodings, 60-120 s). The square width
// is therefore case-split: every power of two up to 1024 (the only widths the
// protocol produces) as a concrete value, plus an arbitrary symbolic width up
// to 16; coordinates stay fully symbolic 64-bit values.

func coordSize() int {
	if nd.Choice(2, "sizeKind") == 0 {
		k := nd.Choice(12, "log2size") // 0 => size 0, else 1<<(k-1): 1..1024
		if k == 0 {
			return 0
		}
		return 1 << (k - 1)
	}
	size := nd.Int("edsSize")
	nd.Assume(size >= 0 && size <= 16)
	return size
}

//verif:opts nopanic cover=accepted,refused
func VerifH_C18_Coords1D() {
	row, col := nd.Int("row"), nd.Int("col")
	size := coordSize()
	idx, err := SampleCoordsAs1DIndex(SampleCoords{Row: row, Col: col}, size)
	if err != nil {
		nd.Cover("refused")
		nd.Assert(row < 0 || col < 0 || row >= size || col >= size, "refused-only-outside")
		return
	}
	nd.Cover("accepted")
	nd.Assert(0 <= row && row < size && 0 <= col && col < size, "accepted-only-inside")
	back, err := SampleCoordsFrom1DIndex(idx, size)
	nd.Assert(err == nil, "inverse-accepts")
	nd.Assert(back.Row == row && back.Col == col, "inverse")
}

//verif:opts nopanic cover=accepted,refused
func VerifH_C18_CoordsFrom1D() {
	idx := nd.Int("idx")
	size := coordSize()
	c, err := SampleCoordsFrom1DIndex(idx, size)
	if err != nil {
		nd.Cover("refused")
		return
	}
	nd.Cover("accepted")
	nd.Assert(0 <= c.Row && c.Row < size && 0 <= c.Col && c.Col < size, "in-square")
	back, err := SampleCoordsAs1DIndex(c, size)
	nd.Assert(err == nil && back == idx, "inverse")
}
