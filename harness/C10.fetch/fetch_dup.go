//verif:overlay share/shwap/p2p/bitswap/zz_verif_c10_fetch.go
//verif:include ../C06.bitswap/bitswap_verified.go
//verif:bound concurrent fetches of one identifier: an original Fetch and a duplicate Fetch of the same sample id through the real fetch / unmarshalFns registry / hasher; the duplicate either stays or is cancelled before any block arrives; then one honest (verifying) block for the id arrives and is run through the registered hasher as Bitswap does; schedules within the delay bound (1 deviation, thorough 2)
//verif:assume exchange model: GetBlocks hands back a channel per call that is closed when the call's context ends or after the wanted block was handed over; a block reaches the sessions only if the hasher accepts it (as C06.bitswap); container decode / verification are the ideal verdicts of that model
//verif:bound the other order (VerifH_C10_DuplicateSurvivesTheOriginalFetch): the original requester is cancelled while the duplicate is pending, then the honest block arrives - fails on the unchanged tree, recorded as known finding C10-duplicate-orphaned-by-original
//verif:outside real Bitswap sessions (the known finding is demonstrated against them natively: findings/c10_duporphan_test.go)
package bitswap

import (
	"context"

	blocks "github.com/ipfs/go-block-format"
	"github.com/ipfs/go-cid"

	"github.com/celestiaorg/nmt"

	"github.com/celestiaorg/celestia-node/share"
	"github.com/celestiaorg/celestia-node/share/shwap"
	nd "github.com/celestiaorg/celestia-node/verifnd"
)

type verifSub struct {
	ctx    context.Context
	ch     chan blocks.Block
	closed bool
}

func (s *verifSub) close() {
	if !s.closed {
		s.closed = true
		close(s.ch)
	}
}

type verifDupExchange struct {
	verifBSExchange
	subs []*verifSub
}

func (e *verifDupExchange) GetBlocks(ctx context.Context, cids []cid.Cid) (<-chan blocks.Block, error) {
	s := &verifSub{ctx: ctx, ch: make(chan blocks.Block, 4)}
	e.subs = append(e.subs, s)
	go func() { // Bitswap closes the channel when the caller's context ends
		<-ctx.Done()
		s.close()
	}()
	return s.ch, nil
}

// While a request for an identifier is pending, an honest block for it is
// accepted by the hasher and fulfils the request - also when another fetch of
// the same identifier came and went (was cancelled) in the meantime.
//
//verif:opts nopanic nodeadlock noreplay preempt=1 preempt_thorough=2 threads=16 cover=duplicate-cancelled,duplicate-stays
func VerifH_C10_PendingRequestSurvivesADuplicateFetch() {
	verifDeliveries, verifProofOf = nil, map[*nmt.Proof]int{}
	ex := &verifDupExchange{}
	root := &share.AxisRoots{RowRoots: make([][]byte, 4), ColumnRoots: make([][]byte, 4)}
	for i := range root.RowRoots {
		root.RowRoots[i], root.ColumnRoots[i] = make([]byte, 90), make([]byte, 90)
	}
	coords := shwap.SampleCoords{Row: 1, Col: 2}
	blkA, err := NewEmptySampleBlock(7, coords, 4)
	nd.Assume(err == nil)
	blkB, err := NewEmptySampleBlock(7, coords, 4)
	nd.Assume(err == nil)
	want := blkA.CID()

	ctxA, cancelA := context.WithCancel(context.Background())
	defer cancelA()
	ctxB, cancelB := context.WithCancel(context.Background())
	defer cancelB()
	resA, resB := make(chan error, 1), make(chan error, 1)
	go func() { resA <- Fetch(ctxA, ex, root, []Block{blkA}) }()
	nd.RunOthers() // the original is registered and waits for its block
	nd.Assert(len(ex.subs) == 1, "original-request-is-pending")
	go func() { resB <- Fetch(ctxB, ex, root, []Block{blkB}) }()
	nd.RunOthers()
	nd.Assert(len(ex.subs) == 2, "duplicate-request-is-pending")

	dupCancelled := nd.Choice(2, "cancelDuplicate") == 1
	if dupCancelled {
		cancelB()
		errB := <-resB
		nd.Assert(errB != nil, "cancelled-fetch-reports-the-cancellation")
		nd.Cover("duplicate-cancelled")
	} else {
		nd.Cover("duplicate-stays")
	}

	// the honest block arrives: Bitswap recomputes its CID with the hasher
	// registered for the announced multihash code
	k := len(verifDeliveries)
	verifDeliveries = append(verifDeliveries, verifDelivery{cid: want, verifies: true})
	data := []byte{byte(k)}
	hs := verifHasherFor(want.Prefix().MhType)
	_, herr := hs.Write(data)
	nd.Assert(herr == nil, "honest-block-for-a-pending-request-is-accepted")
	if herr != nil {
		return
	}
	b, _ := blocks.NewBlockWithCid(data, want)
	for _, s := range ex.subs {
		if !s.closed {
			s.ch <- b
			s.close() // every wanted block arrived
		}
	}
	errA := <-resA
	nd.Assert(errA == nil, "pending-request-is-fulfilled-by-the-honest-block")
	nd.Assert(!blkA.Container.IsEmpty(), "pending-request-is-fulfilled-by-the-honest-block")
	if !dupCancelled {
		errB := <-resB
		nd.Assert(errB == nil && !blkB.Container.IsEmpty(), "duplicate-request-is-fulfilled-too")
	}
	_, still := unmarshalFns.Load(want)
	nd.Assert(!still, "registry-entry-is-removed-once-the-request-is-done")
}

// The other order: the ORIGINAL requester is cancelled while a duplicate fetch
// of the same identifier is still pending; the honest block that arrives next
// must still be accepted and fulfil the duplicate.
//
//verif:opts nopanic nodeadlock noreplay preempt=0 threads=16 cover=original-cancelled
func VerifH_C10_DuplicateSurvivesTheOriginalFetch() {
	verifDeliveries, verifProofOf = nil, map[*nmt.Proof]int{}
	ex := &verifDupExchange{}
	root := &share.AxisRoots{RowRoots: make([][]byte, 4), ColumnRoots: make([][]byte, 4)}
	for i := range root.RowRoots {
		root.RowRoots[i], root.ColumnRoots[i] = make([]byte, 90), make([]byte, 90)
	}
	coords := shwap.SampleCoords{Row: 1, Col: 2}
	blkA, err := NewEmptySampleBlock(7, coords, 4)
	nd.Assume(err == nil)
	blkB, err := NewEmptySampleBlock(7, coords, 4)
	nd.Assume(err == nil)
	want := blkA.CID()
	ctxA, cancelA := context.WithCancel(context.Background())
	defer cancelA()
	ctxB, cancelB := context.WithCancel(context.Background())
	defer cancelB()
	resA, resB := make(chan error, 1), make(chan error, 1)
	go func() { resA <- Fetch(ctxA, ex, root, []Block{blkA}) }()
	nd.RunOthers()
	go func() { resB <- Fetch(ctxB, ex, root, []Block{blkB}) }()
	nd.RunOthers()
	nd.Assert(len(ex.subs) == 2, "duplicate-request-is-pending")
	cancelA()
	nd.Assert(<-resA != nil, "cancelled-fetch-reports-the-cancellation")
	nd.Cover("original-cancelled")

	k := len(verifDeliveries)
	verifDeliveries = append(verifDeliveries, verifDelivery{cid: want, verifies: true})
	data := []byte{byte(k)}
	hs := verifHasherFor(want.Prefix().MhType)
	_, herr := hs.Write(data)
	nd.Known("C10-duplicate-orphaned-by-original", herr != nil)
	nd.Assert(herr == nil, "honest-block-for-a-pending-duplicate-request-is-accepted")
}
