// Package verifnd is the harness API. Under the symbolic engine every
// function here is intercepted by name (bodies are ignored). Compiled
// natively (go test -overlay) it replays one counterexample: values are read
// from the JSON file named by VERIF_REPLAY, in call order per tag.
package verifnd

import (
	"encoding/json"
	"fmt"
	"os"
	"sync"
	"time"
)

type replay struct {
	Values    map[string]uint64 `json:"values"`
	Decisions []int             `json:"decisions"`
	DecKinds  []string          `json:"decision_kinds"`
}

var (
	mu     sync.Mutex
	rp     *replay
	count  = map[string]int{}
	decPos int
	// Failed is set when an Assert fails natively.
	Failed  []string
	Covered = map[string]bool{}
)

func load() {
	if rp != nil {
		return
	}
	rp = &replay{Values: map[string]uint64{}}
	if p := os.Getenv("VERIF_REPLAY"); p != "" {
		b, err := os.ReadFile(p)
		if err != nil {
			panic(err)
		}
		if err := json.Unmarshal(b, rp); err != nil {
			panic(err)
		}
	}
}

// Reset restarts value numbering (call at the start of a native replay test).
func Reset() {
	mu.Lock()
	defer mu.Unlock()
	count = map[string]int{}
	decPos = 0
	Failed = nil
}

func val(tag string) uint64 {
	mu.Lock()
	defer mu.Unlock()
	load()
	n := count[tag]
	count[tag] = n + 1
	name := tag
	if n > 0 {
		name = fmt.Sprintf("%s#%d", tag, n)
	}
	return rp.Values[name]
}

func U8(tag string) uint8   { return uint8(val(tag)) }
func U16(tag string) uint16 { return uint16(val(tag)) }
func U32(tag string) uint32 { return uint32(val(tag)) }
func U64(tag string) uint64 { return val(tag) }
func I32(tag string) int32  { return int32(val(tag)) }
func I64(tag string) int64  { return int64(val(tag)) }
func Int(tag string) int    { return int(val(tag)) }
func Bool(tag string) bool  { return val(tag)&1 == 1 }

// Bytes returns n fresh bytes named tag[0..n).
func Bytes(n int, tag string) []byte {
	b := make([]byte, n)
	for i := range b {
		b[i] = uint8(val(fmt.Sprintf("%s[%d]", tag, i)))
	}
	return b
}

// Choice returns an arbitrary value in [0,n); the engine forks (every path
// has concrete shapes). Natively it follows the recorded decisions.
func Choice(n int, tag string) int {
	if n <= 1 {
		return 0 // the engine records no decision for a one-way choice
	}
	mu.Lock()
	defer mu.Unlock()
	load()
	for decPos < len(rp.Decisions) {
		k := rp.DecKinds[decPos]
		d := rp.Decisions[decPos]
		decPos++
		if k == "choice:"+tag {
			if d < n {
				return d
			}
			return 0
		}
	}
	return 0
}

// Assume prunes the path when b is false.
func Assume(b bool) {
	if !b {
		panic("verifnd: assumption violated under native replay")
	}
}

// Assert is the property. Natively it records the failure.
func Assert(b bool, label string) {
	if !b {
		mu.Lock()
		Failed = append(Failed, label)
		mu.Unlock()
	}
}

// Cover marks a label that must be reached by at least one feasible path.
func Cover(label string) { mu.Lock(); Covered[label] = true; mu.Unlock() }

// CoverIf covers label when cond can hold on this path (engine: one
// satisfiability query, no fork; the path is not constrained by cond).
func CoverIf(cond bool, label string) {
	if cond {
		Cover(label)
	}
}

// Known marks the rest of this path as inside the region of known finding id
// when in is true and the id is listed as open in known_findings.json.
func Known(id string, in bool) {}

// Event adds a line to the counterexample's event history.
func Event(s string) {}

// End ends the path normally.
func End() { panic(endPath{}) }

type endPath struct{}

// IsEnd reports whether a recovered panic value is End()'s.
func IsEnd(r any) bool { _, ok := r.(endPath); return ok }

// Yield lets any enabled thread (including the caller) run next.
func Yield() {}

// Or, And, Implies are strict (both operands evaluated): under the engine
// they build one formula instead of forking the path.
func Or(a, b bool) bool      { return a || b }
func And(a, b bool) bool     { return a && b }
func Implies(a, b bool) bool { return !a || b }

func Iff(a, b bool) bool { return a == b }

// SameBytes reports syntactic identity under the engine (same terms);
// natively plain equality.
func SameBytes(a, b []byte) bool { return string(a) == string(b) }

// EqBytes is byte-string equality as one formula.
func EqBytes(a, b []byte) bool { return string(a) == string(b) }

// Axiom adds a model axiom (ideal hash/codec consistency) without a
// feasibility query.
func Axiom(b bool) {}

// IteU64/IteInt select without forking.
func IteU64(c bool, a, b uint64) uint64 {
	if c {
		return a
	}
	return b
}

func IteU8(c bool, a, b uint8) uint8 {
	if c {
		return a
	}
	return b
}

func IteInt(c bool, a, b int) int {
	if c {
		return a
	}
	return b
}

// Thorough reports whether the check runs in the thorough tier.
func Thorough() bool { return os.Getenv("VERIF_TIER") == "thorough" }

// RunOthers blocks the caller until every other thread is blocked or done.
func RunOthers() { time.Sleep(50 * time.Millisecond) }

// PermuteRange makes the next map range iterate in an arbitrary order.
func PermuteRange() {}

// Atomic runs f without preemption.
func Atomic(f func()) { f() }

// Symbolic reports whether the engine is running (false natively).
func Symbolic() bool { return false }

// NoPreempt / Preempt bracket a region without preemption points.
func NoPreempt() {}
func Preempt()   {}

// SetPreemptions overrides the preemption bound for the rest of the path.
func SetPreemptions(n int) {}

// Deadlocked is never true natively; under the engine a harness may declare
// the current blocked state intentional.
func Blocked() bool { return false }

// Go starts f as an environment thread (same as `go f()`; the engine may
// treat it as a daemon that is not counted in deadlock detection).
func Daemon(f func()) { go f() }

// FreshPtrID returns a small unique id (ghost identities).
func FreshID() int {
	mu.Lock()
	defer mu.Unlock()
	count["!id"]++
	return count["!id"]
}
