//verif:overlay share/shwap/p2p/bitswap/zz_verif_c10_blocks.go
//verif:replace (*github.com/celestiaorg/celestia-node/share/shwap/pb.Row).Unmarshal github.com/celestiaorg/celestia-node/share/shwap/p2p/bitswap.verifRowUnmarshal
//verif:replace github.com/celestiaorg/celestia-node/share/shwap.RowFromProto github.com/celestiaorg/celestia-node/share/shwap/p2p/bitswap.verifRowFromProto
//verif:replace (*github.com/celestiaorg/celestia-node/share/shwap.Row).Verify github.com/celestiaorg/celestia-node/share/shwap/p2p/bitswap.verifRowVerify
//verif:replace (*github.com/celestiaorg/celestia-node/share/shwap/pb.RowNamespaceData).Unmarshal github.com/celestiaorg/celestia-node/share/shwap/p2p/bitswap.verifRNDUnmarshal
//verif:replace github.com/celestiaorg/celestia-node/share/shwap.RowNamespaceDataFromProto github.com/celestiaorg/celestia-node/share/shwap/p2p/bitswap.verifRNDFromProto
//verif:replace (github.com/celestiaorg/celestia-node/share/shwap.RowNamespaceData).Verify github.com/celestiaorg/celestia-node/share/shwap/p2p/bitswap.verifRNDVerify
//verif:replace (*github.com/celestiaorg/celestia-node/share/shwap/pb.RangeNamespaceData).Unmarshal github.com/celestiaorg/celestia-node/share/shwap/p2p/bitswap.verifRangeUnmarshal
//verif:replace github.com/celestiaorg/celestia-node/share/shwap.RangeNamespaceDataFromProto github.com/celestiaorg/celestia-node/share/shwap/p2p/bitswap.verifRangeFromProto
//verif:replace (*github.com/celestiaorg/celestia-node/share/shwap.RangeNamespaceData).VerifyInclusion github.com/celestiaorg/celestia-node/share/shwap/p2p/bitswap.verifRangeVerify
//verif:bound hasher, row / row-namespace-data / range blocks: requested id symbolic (64-bit height, row index / range bounds, square width 4 resp. ODS 2..4); received block's inner CID = ARBITRARY bytes of the requested CID's length -1..+1; container decode and verification are ideal verdicts; a second block for the same CID follows a rejected one
//verif:assume the containers' protobuf Unmarshal / FromProto and Verify / VerifyInclusion are models: success/failure bits and recorded operands (C01/C02 cover the real verifiers)
package bitswap

import (
	"bytes"
	"errors"

	libshare "github.com/celestiaorg/go-square/v4/share"
	"github.com/celestiaorg/nmt"

	"github.com/celestiaorg/celestia-node/share"
	"github.com/celestiaorg/celestia-node/share/shwap"
	shwappb "github.com/celestiaorg/celestia-node/share/shwap/pb"
	nd "github.com/celestiaorg/celestia-node/verifnd"
)

var (
	verifDecodes, verifVerifies bool
	verifRangeArgs              struct {
		from, to shwap.SampleCoords
		odsSize  int
		nRoots   int
	}
	verifNsArg libshare.Namespace
)

func verifShare() libshare.Share {
	raw := make([]byte, libshare.ShareSize)
	copy(raw, libshare.MustNewV0Namespace([]byte("c10")).Bytes())
	sh, _ := libshare.NewShare(raw)
	return sh
}

func verifNsForCID() libshare.Namespace { return libshare.MustNewV0Namespace([]byte("c10")) }

func verifDecodeErr() error {
	if verifDecodes {
		return nil
	}
	return errors.New("stub: bad container encoding")
}

func verifVerdict() error {
	verifVerifyCalls++
	if verifVerifies {
		return nil
	}
	return errors.New("stub: container does not verify")
}

func verifRowUnmarshal(r *shwappb.Row, data []byte) error { return verifDecodeErr() }
func verifRowFromProto(r *shwappb.Row) (shwap.Row, error) {
	return shwap.NewRow([]libshare.Share{verifShare(), verifShare()}, shwap.Left), nil
}
func verifRowVerify(r *shwap.Row, roots *share.AxisRoots, idx int) error {
	verifVerifyArgs = [2]int{idx, -1}
	verifVerifyRoot = roots
	return verifVerdict()
}

func verifRNDUnmarshal(r *shwappb.RowNamespaceData, data []byte) error { return verifDecodeErr() }
func verifRNDFromProto(r *shwappb.RowNamespaceData) (shwap.RowNamespaceData, error) {
	p := nmt.NewInclusionProof(0, 1, nil, true)
	return shwap.RowNamespaceData{Shares: []libshare.Share{verifShare()}, Proof: &p}, nil
}
func verifRNDVerify(r shwap.RowNamespaceData, roots *share.AxisRoots, ns libshare.Namespace, rowIdx int) error {
	verifVerifyArgs = [2]int{rowIdx, -1}
	verifVerifyRoot = roots
	verifNsArg = ns
	return verifVerdict()
}

func verifRangeUnmarshal(r *shwappb.RangeNamespaceData, data []byte) error { return verifDecodeErr() }
func verifRangeFromProto(r *shwappb.RangeNamespaceData) (shwap.RangeNamespaceData, error) {
	return shwap.RangeNamespaceData{Shares: [][]libshare.Share{{verifShare()}}}, nil
}
func verifRangeVerify(r *shwap.RangeNamespaceData, from, to shwap.SampleCoords, odsSize int, roots [][]byte) error {
	verifRangeArgs.from, verifRangeArgs.to, verifRangeArgs.odsSize, verifRangeArgs.nRoots = from, to, odsSize, len(roots)
	return verifVerdict()
}

// feeds the hasher one block with an arbitrary inner CID (length of the
// requested CID -1..+1), then - after a rejection - a second one
func verifFeed(want []byte, mhCode uint64) (hs *hasher, werr error) {
	switch nd.Choice(3, "cidlen") {
	case 0:
		verifInner = nd.Bytes(len(want), "cid")
	case 1:
		verifInner = nd.Bytes(len(want)-1, "cid")
	case 2:
		verifInner = nd.Bytes(len(want)+1, "cid")
	}
	verifDecodes, verifVerifies = nd.Bool("container.decodes"), nd.Bool("container.verifies")
	verifVerifyCalls = 0
	hs = verifHasherFor(mhCode)
	return hs, hs.write([]byte{0})
}

// the second block: exactly the requested CID; the verdict is arbitrary again
func verifSecond(want []byte, mhCode uint64) (hs *hasher, werr error) {
	verifInner = append([]byte(nil), want...)
	verifDecodes, verifVerifies = true, nd.Bool("second.verifies")
	verifVerifyCalls = 0
	hs = verifHasherFor(mhCode)
	return hs, hs.write([]byte{0})
}

//verif:opts nopanic cover=filled,rejected,second-filled,second-rejected
func VerifH_C10_RowHasherAcceptsOnlyRequested() {
	h, row := nd.U64("height"), nd.Int("row")
	size := 4
	blk, err := NewEmptyRowBlock(h, row, size)
	if err != nil {
		nd.End()
	}
	root := &share.AxisRoots{RowRoots: make([][]byte, size), ColumnRoots: make([][]byte, size)}
	want := blk.CID()
	unmarshalFns.Store(want, &unmarshalEntry{UnmarshalFn: blk.UnmarshalFn(root)})
	wantBytes := want.Bytes()
	idBytes, _ := blk.ID.MarshalBinary()

	hs, werr := verifFeed(wantBytes, rowMultihashCode)
	if werr != nil {
		nd.Cover("rejected")
		nd.Assert(blk.Container.IsEmpty(), "rejected-block-leaves-the-request-unfulfilled")
		hs, werr = verifSecond(wantBytes, rowMultihashCode)
		if werr != nil {
			nd.Cover("second-rejected")
			nd.Assert(!verifVerifies && blk.Container.IsEmpty(), "rejected-block-leaves-the-request-unfulfilled")
			return
		}
		nd.Cover("second-filled")
		nd.Assert(verifVerifies && verifVerifyCalls == 1, "block-after-a-rejected-one-is-verified-too")
		return
	}
	nd.Cover("filled")
	nd.Assert(bytes.Equal(verifInner, wantBytes), "accepted-only-for-exactly-the-requested-identifier")
	nd.Assert(verifDecodes && verifVerifies && verifVerifyCalls == 1 && verifVerifyRoot == root, "container-verified-against-the-requesters-header")
	nd.Assert(verifVerifyArgs[0] == row, "container-verified-for-the-requested-coordinates")
	nd.Assert(!blk.Container.IsEmpty(), "request-fulfilled")
	nd.Assert(bytes.Equal(hs.Sum(nil), idBytes), "digest-is-the-requested-id")
}

//verif:opts nopanic cover=filled,rejected,second-filled,second-rejected
func VerifH_C10_RowNamespaceDataHasherAcceptsOnlyRequested() {
	h, row := nd.U64("height"), nd.Int("row")
	size := 4
	ns := libshare.MustNewV0Namespace([]byte("c10"))
	blk, err := NewEmptyRowNamespaceDataBlock(h, row, ns, size)
	if err != nil {
		nd.End()
	}
	root := &share.AxisRoots{RowRoots: make([][]byte, size), ColumnRoots: make([][]byte, size)}
	want := blk.CID()
	unmarshalFns.Store(want, &unmarshalEntry{UnmarshalFn: blk.UnmarshalFn(root)})
	wantBytes := want.Bytes()
	idBytes, _ := blk.ID.MarshalBinary()

	hs, werr := verifFeed(wantBytes, rowNamespaceDataMultihashCode)
	if werr != nil {
		nd.Cover("rejected")
		nd.Assert(blk.Container.IsEmpty(), "rejected-block-leaves-the-request-unfulfilled")
		hs, werr = verifSecond(wantBytes, rowNamespaceDataMultihashCode)
		if werr != nil {
			nd.Cover("second-rejected")
			nd.Assert(!verifVerifies && blk.Container.IsEmpty(), "rejected-block-leaves-the-request-unfulfilled")
			return
		}
		nd.Cover("second-filled")
		nd.Assert(verifVerifies && verifVerifyCalls == 1, "block-after-a-rejected-one-is-verified-too")
		return
	}
	nd.Cover("filled")
	nd.Assert(bytes.Equal(verifInner, wantBytes), "accepted-only-for-exactly-the-requested-identifier")
	nd.Assert(verifDecodes && verifVerifies && verifVerifyCalls == 1 && verifVerifyRoot == root, "container-verified-against-the-requesters-header")
	nd.Assert(verifVerifyArgs[0] == row && verifNsArg.Equals(ns), "container-verified-for-the-requested-coordinates")
	nd.Assert(!blk.Container.IsEmpty(), "request-fulfilled")
	nd.Assert(bytes.Equal(hs.Sum(nil), idBytes), "digest-is-the-requested-id")
}

//verif:opts nopanic cover=filled,rejected,second-filled,second-rejected
func VerifH_C10_RangeHasherAcceptsOnlyRequested() {
	h := nd.U64("height")
	ods := 2 << nd.Choice(2, "odsLog") // 2 or 4
	from, to := nd.Int("from"), nd.Int("to")
	blk, err := NewEmptyRangeNamespaceDataBlock(h, from, to, ods)
	if err != nil {
		nd.End()
	}
	root := &share.AxisRoots{RowRoots: make([][]byte, 2*ods), ColumnRoots: make([][]byte, 2*ods)}
	want := blk.CID()
	unmarshalFns.Store(want, &unmarshalEntry{UnmarshalFn: blk.UnmarshalFn(root)})
	wantBytes := want.Bytes()
	idBytes, _ := blk.ID.MarshalBinary()

	// the received block carries the CID of an arbitrary valid range id (any
	// height and bounds - equal to the requested one or not); arbitrary CID
	// BYTES are covered by the sample/row harnesses, which share the parser
	other, err := NewEmptyRangeNamespaceDataBlock(nd.U64("height2"), nd.Int("from2"), nd.Int("to2"), ods)
	if err != nil {
		nd.End()
	}
	verifInner = other.CID().Bytes()
	verifDecodes, verifVerifies = nd.Bool("container.decodes"), nd.Bool("container.verifies")
	verifVerifyCalls = 0
	hs := verifHasherFor(rangeNamespaceDataMultihashCode)
	werr := hs.write([]byte{0})
	if werr != nil {
		nd.Cover("rejected")
		nd.Assert(blk.Container.IsEmpty(), "rejected-block-leaves-the-request-unfulfilled")
		hs, werr = verifSecond(wantBytes, rangeNamespaceDataMultihashCode)
		if werr != nil {
			nd.Cover("second-rejected")
			nd.Assert(!verifVerifies && blk.Container.IsEmpty(), "rejected-block-leaves-the-request-unfulfilled")
			return
		}
		nd.Cover("second-filled")
		nd.Assert(verifVerifies && verifVerifyCalls == 1, "block-after-a-rejected-one-is-verified-too")
		return
	}
	nd.Cover("filled")
	nd.Assert(bytes.Equal(verifInner, wantBytes), "accepted-only-for-exactly-the-requested-identifier")
	nd.Assert(verifDecodes && verifVerifies && verifVerifyCalls == 1, "container-verified-against-the-requesters-header")
	a := verifRangeArgs
	nd.Assert(a.odsSize == ods && a.from.Row*ods+a.from.Col == from && a.to.Row*ods+a.to.Col == to-1 &&
		a.from.Col >= 0 && a.from.Col < ods && a.to.Col >= 0 && a.to.Col < ods, "container-verified-for-the-requested-coordinates")
	nd.Assert(a.nRoots == a.to.Row-a.from.Row+1, "container-verified-against-the-rows-of-the-range")
	nd.Assert(!blk.Container.IsEmpty(), "request-fulfilled")
	nd.Assert(bytes.Equal(hs.Sum(nil), idBytes), "digest-is-the-requested-id")
}

// A hasher is registered per block type; Bitswap picks it by the multihash
// code of the CID prefix a block is ANNOUNCED under and takes the digest it
// returns as the identifier of a wanted block of that type. A block whose
// inner CID is of another type must therefore be refused - even when a request
// for that other identifier is pending and the container verifies for it -
// otherwise bytes carrying a range identifier fulfil a pending sample request
// (both identifiers are 12 bytes), or a row-namespace-data block (digest cut to
// the announced length) a pending row request, with nothing filled in.
//
//verif:opts nopanic cover=sametype,othertype
func VerifH_C10_HasherOfOneTypeRefusesBlocksOfAnother() {
	h := nd.U64("height")
	size := 4
	root := &share.AxisRoots{RowRoots: make([][]byte, size), ColumnRoots: make([][]byte, size)}
	codes := []uint64{sampleMultihashCode, rowMultihashCode, rowNamespaceDataMultihashCode, rangeNamespaceDataMultihashCode}
	// the pending request: an arbitrary identifier of an arbitrary type
	pend := nd.Choice(4, "pendingType")
	var blk Block
	var err error
	switch pend {
	case 0:
		blk, err = NewEmptySampleBlock(h, shwap.SampleCoords{Row: nd.Int("row"), Col: nd.Int("col")}, size)
	case 1:
		blk, err = NewEmptyRowBlock(h, nd.Int("row"), size)
	case 2:
		blk, err = NewEmptyRowNamespaceDataBlock(h, nd.Int("row"), verifNsForCID(), size)
	case 3:
		blk, err = NewEmptyRangeNamespaceDataBlock(h, nd.Int("from"), nd.Int("to"), size/2)
	}
	if err != nil {
		nd.End()
	}
	want := blk.CID()
	unmarshalFns.Store(want, &unmarshalEntry{UnmarshalFn: blk.UnmarshalFn(root)})
	// an honest block for that request (decodes, verifies) ...
	verifInner = want.Bytes()
	verifDecodes, verifVerifies = true, true
	verifSampleHonest = true
	// ... announced under the multihash code of an arbitrary block type
	ann := nd.Choice(4, "announcedType")
	hs := verifHasherFor(codes[ann])
	werr := hs.write([]byte{0})
	if ann == pend {
		nd.Cover("sametype")
		nd.Assert(werr == nil, "honest-block-of-the-requested-type-is-accepted")
		return
	}
	nd.Cover("othertype")
	nd.Assert(werr != nil, "hasher-refuses-a-block-of-another-type")
}
