//verif:overlay share/shwap/p2p/bitswap/zz_verif_c10.go
//verif:pkgs ./share/shwap github.com/celestiaorg/nmt github.com/ipfs/go-cid github.com/multiformats/go-multihash github.com/multiformats/go-multihash/core github.com/multiformats/go-varint github.com/celestiaorg/go-square/v4/share
//verif:replace github.com/celestiaorg/celestia-node/share/shwap/p2p/bitswap.unmarshalProto github.com/celestiaorg/celestia-node/share/shwap/p2p/bitswap.verifUnmarshalProto
//verif:replace (*github.com/celestiaorg/celestia-node/share/shwap/pb.Sample).Unmarshal github.com/celestiaorg/celestia-node/share/shwap/p2p/bitswap.verifSampleUnmarshal
//verif:replace github.com/celestiaorg/celestia-node/share/shwap.SampleFromProto github.com/celestiaorg/celestia-node/share/shwap/p2p/bitswap.verifSampleFromProto
//verif:replace (github.com/celestiaorg/celestia-node/share/shwap.Sample).Verify github.com/celestiaorg/celestia-node/share/shwap/p2p/bitswap.verifSampleVerify
//verif:bound identifier <-> CID: every id field full-width symbolic (height uint64, indices int64), square width parameter 0..512 (ODS) / 0..1024 (EDS); the CID is built and parsed by the real go-cid / go-multihash / go-varint code on symbolic bytes
//verif:bound hasher: requested sample id symbolic; received block's inner CID = ARBITRARY bytes of length 0..(4+4+SampleIDSize); container decode and verification are ideal verdicts
//verif:assume envelope protobuf decode (unmarshalProto), the container's protobuf Unmarshal / FromProto and Sample.Verify are replaced by models: arbitrary decoded CID bytes, success/failure bits; C01 covers the real verifier
//verif:outside real Bitswap sessions and the exchange; generated protobuf code
package bitswap

import (
	"bytes"
	"errors"

	"github.com/ipfs/go-cid"
	"github.com/celestiaorg/nmt"

	"github.com/celestiaorg/celestia-node/share"
	"github.com/celestiaorg/celestia-node/share/shwap"
	shwappb "github.com/celestiaorg/celestia-node/share/shwap/pb"
	nd "github.com/celestiaorg/celestia-node/verifnd"
)

// ---- identifier <-> CID -------------------------------------------------------

//verif:opts nopanic cover=accepted,refused
func VerifH_C10_SampleCID() {
	h, row, col, size := nd.U64("height"), nd.Int("row"), nd.Int("col"), nd.Int("edsSize")
	nd.Assume(size >= 0 && size <= 1024)
	blk, err := NewEmptySampleBlock(h, shwap.SampleCoords{Row: row, Col: col}, size)
	if err != nil {
		nd.Cover("refused")
		return
	}
	nd.Cover("accepted")
	c := blk.CID()
	back, err := EmptySampleBlockFromCID(c)
	nd.Assert(err == nil, "cid-decodes")
	nd.Assert(back.ID.Equals(blk.ID), "id-to-cid-to-id-is-identity")
	// injective: another accepted id with the same CID is the same id
	h2, row2, col2 := nd.U64("height2"), nd.Int("row2"), nd.Int("col2")
	blk2, err := NewEmptySampleBlock(h2, shwap.SampleCoords{Row: row2, Col: col2}, size)
	if err == nil && blk2.CID().Equals(c) {
		nd.Assert(h2 == h && row2 == row && col2 == col, "cid-is-injective")
	}
}

//verif:opts nopanic cover=accepted,refused
func VerifH_C10_RowCID() {
	h, row, size := nd.U64("height"), nd.Int("row"), nd.Int("edsSize")
	nd.Assume(size >= 0 && size <= 1024)
	blk, err := NewEmptyRowBlock(h, row, size)
	if err != nil {
		nd.Cover("refused")
		return
	}
	nd.Cover("accepted")
	c := blk.CID()
	back, err := EmptyRowBlockFromCID(c)
	nd.Assert(err == nil, "cid-decodes")
	nd.Assert(back.ID.Equals(blk.ID), "id-to-cid-to-id-is-identity")
	h2, row2 := nd.U64("height2"), nd.Int("row2")
	blk2, err := NewEmptyRowBlock(h2, row2, size)
	if err == nil && blk2.CID().Equals(c) {
		nd.Assert(h2 == h && row2 == row, "cid-is-injective")
	}
}

//verif:opts nopanic cover=accepted,refused
func VerifH_C10_RangeCID() {
	h, from, to, ods := nd.U64("height"), nd.Int("from"), nd.Int("to"), nd.Int("odsSize")
	nd.Assume(ods >= 0 && ods <= 512)
	blk, err := NewEmptyRangeNamespaceDataBlock(h, from, to, ods)
	if err != nil {
		nd.Cover("refused")
		return
	}
	nd.Cover("accepted")
	c := blk.CID()
	back, err := EmptyRangeNamespaceDataBlockFromCID(c)
	nd.Assert(err == nil, "cid-decodes")
	nd.Assert(back.ID.Equals(blk.ID) && back.ID.From == from && back.ID.To == to, "id-to-cid-to-id-is-identity")
	h2, from2, to2 := nd.U64("height2"), nd.Int("from2"), nd.Int("to2")
	blk2, err := NewEmptyRangeNamespaceDataBlock(h2, from2, to2, ods)
	if err == nil && blk2.CID().Equals(c) {
		nd.Assert(h2 == h && from2 == from && to2 == to, "cid-is-injective")
	}
}

// ---- hasher: a received block fills a request only if it is that request ----

var verifInner []byte
var verifVerifyCalls int

// the sample container decodes and verifies (no nondeterministic verdict)
var verifSampleHonest bool
var verifVerifyArgs [2]int
var verifVerifyRoot *share.AxisRoots

func verifUnmarshalProto(data []byte) (cid.Cid, []byte, error) {
	c, err := cid.Cast(verifInner)
	if err != nil {
		return c, nil, err
	}
	return c, []byte{1}, nil
}

func verifSampleUnmarshal(s *shwappb.Sample, data []byte) error {
	if verifSampleHonest || nd.Bool("container.decodes") {
		return nil
	}
	return errors.New("stub: bad container encoding")
}

func verifSampleFromProto(s *shwappb.Sample) (shwap.Sample, error) {
	p := nmt.NewInclusionProof(0, 1, nil, true)
	return shwap.Sample{Proof: &p}, nil
}

func verifSampleVerify(s shwap.Sample, roots *share.AxisRoots, rowIdx, colIdx int) error {
	verifVerifyCalls++
	verifVerifyArgs = [2]int{rowIdx, colIdx}
	verifVerifyRoot = roots
	if verifSampleHonest || nd.Bool("container.verifies") {
		return nil
	}
	return errors.New("stub: container does not verify")
}

//verif:opts nopanic cover=filled,rejected
func VerifH_C10_HasherAcceptsOnlyRequested() {
	h, row, col := nd.U64("height"), nd.Int("row"), nd.Int("col")
	size := 4
	blk, err := NewEmptySampleBlock(h, shwap.SampleCoords{Row: row, Col: col}, size)
	if err != nil {
		nd.End()
	}
	root := &share.AxisRoots{RowRoots: make([][]byte, size), ColumnRoots: make([][]byte, size)}
	want := blk.CID()
	unmarshalFns.Store(want, &unmarshalEntry{UnmarshalFn: blk.UnmarshalFn(root)})

	// the received block: arbitrary inner CID bytes
	n := nd.Choice(3, "cidlen")
	wantBytes := want.Bytes()
	switch n {
	case 0:
		verifInner = nd.Bytes(len(wantBytes), "cid")
	case 1:
		verifInner = nd.Bytes(len(wantBytes)-1, "cid")
	case 2:
		verifInner = nd.Bytes(len(wantBytes)+1, "cid")
	}
	verifVerifyCalls = 0
	hs := verifHasherFor(sampleMultihashCode)
	werr := hs.write([]byte{0})
	idBytes, _ := blk.ID.MarshalBinary()
	if werr != nil {
		nd.Cover("rejected")
		nd.Assert(blk.Container.IsEmpty(), "rejected-block-leaves-the-request-unfulfilled")
		return
	}
	nd.Cover("filled")
	nd.Assert(bytes.Equal(verifInner, wantBytes), "accepted-only-for-exactly-the-requested-identifier")
	nd.Assert(verifVerifyCalls == 1 && verifVerifyRoot == root, "container-verified-against-the-requesters-header")
	nd.Assert(verifVerifyArgs[0] == row && verifVerifyArgs[1] == col, "container-verified-for-the-requested-coordinates")
	nd.Assert(!blk.Container.IsEmpty(), "request-fulfilled")
	nd.Assert(bytes.Equal(hs.Sum(nil), idBytes), "digest-is-the-requested-id")
	if !bytes.Equal(verifInner, wantBytes) {
		nd.Cover("foreign")
	}
}

// CID -> identifier -> CID: whatever CID the decoder accepts for a block type
// is the identifier's own (canonical) CID - no second CID names the same
// identifier. The CID's prefix (version, codec, multihash code, digest length)
// is ARBITRARY bytes; the digest is a valid identifier of the type.
//
//verif:opts nopanic cover=accepted,refused
func VerifH_C10_AcceptedCIDIsTheCanonicalOne() {
	var want cid.Cid
	switch nd.Choice(4, "blockType") {
	case 0:
		b, err := NewEmptySampleBlock(5, shwap.SampleCoords{Row: 1, Col: 2}, 4)
		nd.Assume(err == nil)
		want = b.CID()
	case 1:
		b, err := NewEmptyRowBlock(5, 1, 4)
		nd.Assume(err == nil)
		want = b.CID()
	case 2:
		b, err := NewEmptyRowNamespaceDataBlock(5, 1, verifNsForCID(), 4)
		nd.Assume(err == nil)
		want = b.CID()
	case 3:
		b, err := NewEmptyRangeNamespaceDataBlock(5, 0, 2, 2)
		nd.Assume(err == nil)
		want = b.CID()
	}
	wb := want.Bytes()
	const prefixLen = 8 // version, codec (3-byte varint), multihash code (3-byte varint), digest length
	inner := append(nd.Bytes(prefixLen, "cidPrefix"), wb[prefixLen:]...)
	c, err := cid.Cast(inner)
	if err != nil {
		nd.Cover("refused")
		return
	}
	blk, err := EmptyBlock(c)
	if err != nil {
		nd.Cover("refused")
		return
	}
	nd.Cover("accepted")
	nd.Assert(bytes.Equal(blk.CID().Bytes(), inner), "accepted-cid-is-the-identifiers-own-cid")
}
