//verif:overlay share/shwap/p2p/bitswap/zz_verif_mhreg.go
//verif:replace github.com/multiformats/go-multihash.Register github.com/celestiaorg/celestia-node/share/shwap/p2p/bitswap.verifMhRegister
//verif:assume the global multihash registry is a map from multihash code to the hasher factory the package's own init functions register (registerBlock runs in the engine; go-multihash's registry itself is replaced by that map); Bitswap hashes a received block with the hasher registered for the multihash code of the CID prefix the block is announced under
package bitswap

import (
	"hash"

	nd "github.com/celestiaorg/celestia-node/verifnd"
)

// the multihash registry: every block type registers its hasher factory here
var verifFactories = map[uint64]func() hash.Hash{}

func verifMhRegister(code uint64, f func() hash.Hash) { verifFactories[code] = f }

// verifHasherFor returns a fresh hasher as Bitswap obtains it for a block
// announced under multihash code `code`: from the factory the block type
// registered. (No factory = the package init did not run in the engine: no
// path survives and the cover goals make the check inconclusive.)
func verifHasherFor(code uint64) *hasher {
	f := verifFactories[code]
	nd.Assume(f != nil)
	h, ok := f().(*hasher)
	nd.Assume(ok)
	return h
}
