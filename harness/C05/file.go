//verif:overlay store/file/zz_verif_c05.go
//verif:include ../C01/model.go
//verif:include ../veriffs/fs.go
//verif:pkgs ./share/eds ./share/shwap ./share github.com/celestiaorg/rsmt2d golang.org/x/sync/errgroup
//verif:replace os.OpenFile github.com/celestiaorg/celestia-node/veriffs.OpenFile
//verif:replace os.Open github.com/celestiaorg/celestia-node/veriffs.Open
//verif:replace (*os.File).Write github.com/celestiaorg/celestia-node/veriffs.Write
//verif:replace (*os.File).ReadAt github.com/celestiaorg/celestia-node/veriffs.ReadAt
//verif:replace (*os.File).Read github.com/celestiaorg/celestia-node/veriffs.Read
//verif:replace (*os.File).Close github.com/celestiaorg/celestia-node/veriffs.Close
//verif:replace (*os.File).Stat github.com/celestiaorg/celestia-node/veriffs.FStat
//verif:replace (*os.File).Sync github.com/celestiaorg/celestia-node/veriffs.Sync
//verif:replace (*os.File).Name github.com/celestiaorg/celestia-node/veriffs.Name
//verif:replace encoding/binary.Read github.com/celestiaorg/celestia-node/store/file.verifBinaryRead
//verif:replace encoding/binary.Write github.com/celestiaorg/celestia-node/store/file.verifBinaryWrite
//verif:replace (*github.com/celestiaorg/celestia-node/store/file.codecCache).Encoder github.com/celestiaorg/celestia-node/store/file.verifEncoder
//verif:replace (*github.com/celestiaorg/celestia-app/v9/pkg/da.DataAvailabilityHeader).Hash github.com/celestiaorg/celestia-node/store/file.verifDAHHash
//verif:noop github.com/ipfs/go-log/v2 go.uber.org/zap
//verif:bound EDS files: ODS width 2 (thorough: also 4) (EDS 4x4 / 8x8, 512-byte shares with symbolic namespace-independent payload), 1..4 filled shares followed by tail padding (every amount from none to all-but-one), written as ODS only or ODS+Q4, read back through ODS / ODSQ4 with the Q4 file present or removed, with the in-memory square cache cold, warm or disabled, behind the bounds-validating wrapper; axis index and sample coordinates ARBITRARY symbolic ints (in and out of bounds)
//verif:assume file system = package veriffs model; the Reed-Solomon codec (rsmt2d codec, klauspost ReconstructSome) is the ideal injective codec of the C01 model; binary.Read/Write of the one-byte header version is a direct byte copy (reflection is outside the interpreter); DAH.Hash is an arbitrary 32-byte digest
//verif:outside widths above 2, the empty block (store level), the proof-caching accessor and store caches, proofs for samples / namespace data built from the axis read here (C01/C02: honest containers verify)
package file

import (
	"context"
	"errors"
	"io"

	"github.com/klauspost/reedsolomon"

	"github.com/celestiaorg/celestia-app/v9/pkg/da"
	"github.com/celestiaorg/celestia-app/v9/pkg/wrapper"
	libshare "github.com/celestiaorg/go-square/v4/share"
	"github.com/celestiaorg/rsmt2d"

	"github.com/celestiaorg/celestia-node/share"
	"github.com/celestiaorg/celestia-node/share/eds"
	"github.com/celestiaorg/celestia-node/share/shwap"
	"github.com/celestiaorg/celestia-node/veriffs"
	nd "github.com/celestiaorg/celestia-node/verifnd"
)

func verifBinaryRead(r io.Reader, order any, data any) error {
	var b [1]byte
	if _, err := io.ReadFull(r, b[:]); err != nil {
		return err
	}
	switch p := data.(type) {
	case *headerVersion:
		*p = headerVersion(b[0])
		return nil
	}
	return errors.New("stub binary.Read: unexpected type")
}

func verifBinaryWrite(w io.Writer, order any, data any) error {
	switch v := data.(type) {
	case headerVersion:
		_, err := w.Write([]byte{byte(v)})
		return err
	}
	return errors.New("stub binary.Write: unexpected type")
}

var verifHash32 []byte

// VerifHashOf lets a harness of another package (store: C07) decide the digest per roots value.
var VerifHashOf func(d *da.DataAvailabilityHeader) []byte

func verifDAHHash(d *da.DataAvailabilityHeader) []byte {
	if VerifHashOf != nil {
		return VerifHashOf(d)
	}
	return append([]byte(nil), verifHash32...)
}

// the ideal codec behind klauspost's interface: originals present, parity wanted
type verifRS struct{ reedsolomon.Encoder }

func (verifRS) ReconstructSome(shards [][]byte, required []bool) error {
	k := len(shards) / 2
	for i := 0; i < k; i++ {
		if len(shards[i]) == 0 {
			return errors.New("model codec: originals missing")
		}
	}
	par, err := shwap.VerifModelEncode(shards[:k])
	if err != nil {
		return err
	}
	for i := range required {
		if required[i] && i >= k {
			shards[i] = par[i-k]
		}
	}
	return nil
}

func verifEncoder(c *codecCache, ln int) (reedsolomon.Encoder, error) { return verifRS{}, nil }

var verifK = 2 // ODS width (thorough: also 4)

var verifNs = libshare.MustNewV0Namespace([]byte("c05-ns"))

// the committed square: cells[r][c] for the whole 2k x 2k EDS
func verifSquare(filled int) ([][]libshare.Share, *rsmt2d.ExtendedDataSquare) {
	k := verifK
	cells := make([][]libshare.Share, 2*k)
	for r := range cells {
		cells[r] = make([]libshare.Share, 2*k)
	}
	n := 0
	for r := 0; r < k; r++ {
		for c := 0; c < k; c++ {
			if n < filled {
				cells[r][c] = shwap.VerifModelShare(verifNs, "ods")
			} else {
				cells[r][c] = libshare.TailPaddingShare()
			}
			n++
		}
	}
	enc := func(in []libshare.Share) []libshare.Share {
		par, err := shwap.VerifModelEncode(libshare.ToBytes(in))
		nd.Assume(err == nil)
		out, err := libshare.FromBytes(par)
		nd.Assume(err == nil)
		return out
	}
	for r := 0; r < k; r++ { // Q2 = parity of the ODS rows
		copy(cells[r][k:], enc(cells[r][:k]))
	}
	for c := 0; c < k; c++ { // Q3 = parity of the ODS columns
		col := make([]libshare.Share, k)
		for r := 0; r < k; r++ {
			col[r] = cells[r][c]
		}
		for r, s := range enc(col) {
			cells[k+r][c] = s
		}
	}
	for r := k; r < 2*k; r++ { // Q4 = parity of the Q3 rows
		copy(cells[r][k:], enc(cells[r][:k]))
	}
	var flat [][]byte
	for r := range cells {
		flat = append(flat, libshare.ToBytes(cells[r])...)
	}
	sq, err := rsmt2d.ImportExtendedDataSquare(flat, share.DefaultRSMT2DCodec(), wrapper.NewConstructor(uint64(k)))
	nd.Assume(err == nil)
	return cells, sq
}

func verifRoots() *share.AxisRoots {
	r := &share.AxisRoots{}
	for i := 0; i < 2*verifK; i++ {
		row := make([]byte, share.AxisRootSize)
		copy(row, nd.Bytes(4, "rowroot"))
		col := make([]byte, share.AxisRootSize)
		copy(col, nd.Bytes(4, "colroot"))
		r.RowRoots = append(r.RowRoots, row)
		r.ColumnRoots = append(r.ColumnRoots, col)
	}
	return r
}

func verifSameShares(got []libshare.Share, want []libshare.Share) bool {
	if len(got) != len(want) {
		return false
	}
	eq := true
	for i := range got {
		eq = nd.And(eq, nd.EqBytes(got[i].ToBytes(), want[i].ToBytes()))
	}
	return eq
}

// Whatever is written is what every read path hands back: axis halves at any
// in-bounds index on both axes (from the ODS file, from the Q4 file, or
// recomputed when Q4 is absent), the share list, the streamed square, the
// axis roots, data hash and size; out-of-bounds indices are refused.
//
//verif:opts nopanic nodeadlock noreplay preempt=0 maxwall=1500 cover=ods-only,with-q4,q4-removed,recomputed,from-q4,oob,padding,full
func VerifH_C05_FilesReturnWhatWasWritten() {
	shwap.VerifModelReset()
	share.DefaultRSMT2DCodec = rsmt2d.NewLeoRSCodec
	veriffs.Reset()
	nd.Assume(veriffs.Mkdir("/s", 0o755) == nil)
	verifHash32 = make([]byte, 32)
	copy(verifHash32, nd.Bytes(8, "datahash"))
	verifK = 2
	if nd.Thorough() {
		verifK = 2 << nd.Choice(2, "odsLog")
	}
	k := verifK
	filled := 1 + nd.Choice(k*k, "filled")
	if filled == k*k {
		nd.Cover("full")
	} else {
		nd.Cover("padding")
	}
	cells, sq := verifSquare(filled)
	roots := verifRoots()

	withQ4 := nd.Choice(2, "withQ4") == 1
	var err error
	if withQ4 {
		err = CreateODSQ4("/s/x.ods", "/s/x.q4", roots, sq)
	} else {
		err = CreateODS("/s/x.ods", roots, sq)
	}
	nd.Assert(err == nil, "write-succeeds")
	nd.Assert(veriffs.OpenHandles() == 0, "writer-closes-its-files")
	q4Present := withQ4
	if withQ4 && nd.Choice(2, "q4removed") == 1 {
		nd.Assume(veriffs.Remove("/s/x.q4") == nil)
		q4Present = false
		nd.Cover("q4-removed")
	}
	if withQ4 {
		nd.Assert(ValidateODSQ4Size("/s/x.ods", "/s/x.q4", sq) == nil || !q4Present, "written-files-have-the-expected-size")
	} else {
		nd.Assert(ValidateODSSize("/s/x.ods", sq) == nil, "written-files-have-the-expected-size")
		nd.Cover("ods-only")
	}
	nd.Assert(veriffs.OpenHandles() == 0, "size-validation-closes-the-files-it-opens")

	ods, err := OpenODS("/s/x.ods")
	nd.Assert(err == nil, "written-file-opens")
	ods.disableCache = nd.Choice(2, "disableCache") == 1
	var acc eds.AccessorStreamer = ods
	if withQ4 {
		acc = ODSWithQ4(ods, "/s/x.q4")
		nd.Cover("with-q4")
	}
	ctx := context.Background()
	if nd.Choice(2, "warm") == 1 {
		_, err := acc.Shares(ctx) // fills the in-memory square cache
		nd.Assert(err == nil, "shares-readable")
	}

	// metadata
	size, err := acc.Size(ctx)
	nd.Assert(err == nil && size == 2*k, "size-is-the-written-width")
	dh, err := acc.DataHash(ctx)
	nd.Assert(err == nil && nd.EqBytes(dh, verifHash32), "data-hash-is-the-written-hash")
	ar, err := acc.AxisRoots(ctx)
	nd.Assert(err == nil && len(ar.RowRoots) == 2*k && len(ar.ColumnRoots) == 2*k, "axis-roots-are-the-written-roots")
	for i := 0; i < 2*k; i++ {
		nd.Assert(nd.And(nd.EqBytes(ar.RowRoots[i], roots.RowRoots[i]), nd.EqBytes(ar.ColumnRoots[i], roots.ColumnRoots[i])), "axis-roots-are-the-written-roots")
	}

	// an axis half at an ARBITRARY index, through the validating wrapper
	axis := rsmt2d.Axis(nd.Choice(2, "axis"))
	idx := nd.Int("idx")
	half, err := eds.WithValidation(acc).AxisHalf(ctx, axis, idx)
	if idx < 0 || idx >= 2*k {
		nd.Cover("oob")
		nd.Assert(err != nil, "out-of-bounds-index-is-refused")
	} else {
		nd.Assert(err == nil && len(half.Shares) == k, "in-bounds-axis-is-served")
		want := make([]libshare.Share, k)
		off := 0
		if half.IsParity {
			off = k
			nd.Cover("from-q4")
			nd.Assert(idx >= k && q4Present, "parity-half-comes-from-the-q4-file")
		} else if idx >= k {
			nd.Cover("recomputed")
		}
		for i := 0; i < k; i++ {
			if axis == rsmt2d.Row {
				want[i] = cells[idx][off+i]
			} else {
				want[i] = cells[off+i][idx]
			}
		}
		nd.Assert(verifSameShares(half.Shares, want), "axis-half-is-the-written-data")
	}

	// the whole original square: as a list and as a stream
	var q1 []libshare.Share
	for r := 0; r < k; r++ {
		q1 = append(q1, cells[r][:k]...)
	}
	shs, err := acc.Shares(ctx)
	nd.Assert(err == nil && verifSameShares(shs, q1), "share-list-is-the-written-square")
	rd, err := acc.Reader()
	nd.Assert(err == nil, "stream-opens")
	streamed, err := eds.ReadShares(rd, libshare.ShareSize, k)
	nd.Assert(err == nil && verifSameShares(streamed, q1), "streamed-square-is-the-written-square")

	nd.Assert(acc.Close() == nil, "close-succeeds")
	nd.Assert(veriffs.OpenHandles() == 0, "reader-releases-its-files")
}
