//verif:overlay store/zz_verif_c08.go
//verif:include ../C07/store.go
//verif:replace time.After github.com/celestiaorg/celestia-node/store.verifNever
//verif:noop runtime github.com/ipfs/go-log/v2 go.uber.org/zap
//verif:bound concurrent store use: one block (ODS width 2) at a height plus, with cache size 1, a second height that evicts it; threads: a writer (PutODSQ4), a reader that obtains an accessor (plain store or the serving CachedStore), reads every path and closes, a remover (RemoveODSQ4) and - with caches - a second writer; block stored beforehand or not; recent cache size 0 or 1, serving cache size 1; every interleaving with up to 1 scheduling deviation from round-robin at synchronisation points (thorough: 2)
//verif:assume readers release their accessors within the cache's one-minute close timeout (time.After never fires in the model); goroutines interleave at synchronisation operations (mutexes, channels, atomics) - the race detector, not this check, covers unsynchronised accesses; file system = veriffs model (an open file stays readable after its path is removed)
//verif:outside RemoveQ4 interleavings, more than two heights, lock-stripe collisions beyond the two heights used (heights 7 and 1031 share a stripe), real file descriptors
package store

import (
	"context"
	"errors"
	"sync"
	"time"

	libshare "github.com/celestiaorg/go-square/v4/share"
	"github.com/celestiaorg/rsmt2d"

	"github.com/celestiaorg/celestia-node/share"
	"github.com/celestiaorg/celestia-node/share/eds"
	"github.com/celestiaorg/celestia-node/share/shwap"
	"github.com/celestiaorg/celestia-node/veriffs"
	nd "github.com/celestiaorg/celestia-node/verifnd"
)

func verifNever(d time.Duration) <-chan time.Time { return make(chan time.Time) }

// the reads of a racing reader: metadata, one ODS row, one bottom row (Q4 file
// or recomputed), one right column, the share list - then close
func verifReadsWhileRacing(acc eds.AccessorStreamer, cells [][]libshare.Share, k int, roots *share.AxisRoots, tag byte) {
	ctx := context.Background()
	size, err := acc.Size(ctx)
	nd.Assert(err == nil && size == 2*k, "accessor-serves-the-complete-correct-block-until-closed")
	dh, err := acc.DataHash(ctx)
	nd.Assert(err == nil && nd.EqBytes(dh, verifHashOfTag(tag)), "accessor-serves-the-complete-correct-block-until-closed")
	for _, q := range []struct {
		axis rsmt2d.Axis
		idx  int
	}{{rsmt2d.Row, 0}, {rsmt2d.Row, 2*k - 1}, {rsmt2d.Col, 2*k - 1}} {
		half, err := acc.AxisHalf(ctx, q.axis, q.idx)
		nd.Assert(err == nil && len(half.Shares) == k, "accessor-serves-the-complete-correct-block-until-closed")
		off := 0
		if half.IsParity {
			off = k
		}
		want := make([]libshare.Share, k)
		for i := 0; i < k; i++ {
			if q.axis == rsmt2d.Row {
				want[i] = cells[q.idx][off+i]
			} else {
				want[i] = cells[off+i][q.idx]
			}
		}
		nd.Assert(verifSame(half.Shares, want), "accessor-serves-the-complete-correct-block-until-closed")
	}
	var q1 []libshare.Share
	for r := 0; r < k; r++ {
		q1 = append(q1, cells[r][:k]...)
	}
	shs, err := acc.Shares(ctx)
	nd.Assert(err == nil && verifSame(shs, q1), "accessor-serves-the-complete-correct-block-until-closed")
	nd.Assert(acc.Close() == nil, "accessor-closes")
}

// Two readers share ONE cached, file-backed accessor (serving cache) and make
// their first reads of the bottom half - the lazily opened parity file - at
// the same time: both read the stored data, and once they have closed and the
// block is removed no file remains open (a parity file opened twice would
// leave a descriptor behind).
//
//verif:opts nopanic nodeadlock noreplay preempt=2 threads=10 maxwall=1500 cover=shared,both-read
func VerifH_C08_ReadersSharingACachedAccessor() {
	verifSetup()
	const k, tag, h1 = 2, 0x21, uint64(7)
	ctx := context.Background()
	ns := libshare.MustNewV0Namespace([]byte("c08-ns"))
	cells, sq := shwap.VerifModelSquare(k, 4, ns)
	roots := verifTaggedRoots(tag, 2*k)
	verifRootsOf[sq] = roots
	hash := share.DataHash(verifHashOfTag(tag))
	st, err := NewStore(&Parameters{RecentBlocksCacheSize: 0}, "/s")
	nd.Assert(err == nil, "store-opens")
	nd.Assert(st.PutODSQ4(ctx, roots, h1, sq) == nil, "put-succeeds")
	cs, err := st.WithCache("serving", 1)
	nd.Assert(err == nil, "serving-cache")

	var wg sync.WaitGroup
	read := 0
	for r := 0; r < 2; r++ {
		wg.Add(1)
		go func() {
			defer wg.Done()
			acc, err := cs.GetByHeight(ctx, h1)
			nd.Assert(err == nil, "stored-block-is-readable")
			// the bottom row: served from the parity file, opened on first use
			half, err := acc.AxisHalf(ctx, rsmt2d.Row, 2*k-1)
			nd.Assert(err == nil && len(half.Shares) == k, "accessor-serves-the-complete-correct-block-until-closed")
			off := 0
			if half.IsParity {
				off = k
			}
			nd.Assert(verifSame(half.Shares, cells[2*k-1][off:off+k]), "accessor-serves-the-complete-correct-block-until-closed")
			nd.Assert(acc.Close() == nil, "accessor-closes")
			read++
		}()
	}
	wg.Wait()
	nd.Cover("shared")
	if read == 2 {
		nd.Cover("both-read")
	}
	nd.Assert(st.RemoveODSQ4(ctx, h1, hash) == nil, "remove-succeeds")
	nd.RunOthers()
	nd.Assert(veriffs.OpenHandles() == 0, "every-opened-file-is-released")
}

// Under any interleaving: an accessor a reader obtains serves the complete,
// correct block until the reader closes it (also while the block is removed,
// re-put or evicted); every operation terminates; at quiescence the height is
// either present and fully readable or absent with no file left; every file
// opened is closed once readers are done and the block removed.
//
//verif:opts nopanic nodeadlock noreplay preempt=1 preempt_thorough=2 threads=14 maxwall=1700 cover=reader-served,reader-notfound,present-at-end,absent-at-end,cached,evicting,slow-reader
func VerifH_C08_ConcurrentStoreUseIsSafe() {
	verifSetup()
	const k, tag, h1, h2 = 2, 0x21, uint64(7), uint64(1031) // 7 and 1031 share a lock stripe (mod 1024)
	ctx := context.Background()
	ns := libshare.MustNewV0Namespace([]byte("c08-ns"))
	cells, sq := shwap.VerifModelSquare(k, 4, ns)
	roots := verifTaggedRoots(tag, 2*k)
	hash := share.DataHash(verifHashOfTag(tag))
	cells2, sq2 := shwap.VerifModelSquare(k, 3, ns)
	roots2 := verifTaggedRoots(0x22, 2*k)
	verifRootsOf[sq], verifRootsOf[sq2] = roots, roots2

	cacheSize := nd.Choice(2, "recentCache")
	st, err := NewStore(&Parameters{RecentBlocksCacheSize: cacheSize}, "/s")
	nd.Assert(err == nil, "store-opens")
	var get func(context.Context, uint64) (eds.AccessorStreamer, error) = st.GetByHeight
	withCaches := cacheSize > 0
	if withCaches {
		cs, err := st.WithCache("serving", 1)
		nd.Assert(err == nil, "serving-cache")
		get = cs.GetByHeight
		nd.Cover("cached")
	}
	if nd.Choice(2, "storedBefore") == 1 {
		nd.Assert(st.PutODSQ4(ctx, roots, h1, sq) == nil, "put-succeeds")
	}

	slowReader := withCaches && nd.Choice(2, "slowReader") == 1
	release := make(chan struct{})
	_, sq3 := shwap.VerifModelSquare(k, 2, ns)
	roots3 := verifTaggedRoots(0x23, 2*k)
	verifRootsOf[sq3] = roots3

	var wg sync.WaitGroup
	run := func(f func()) {
		wg.Add(1)
		go func() {
			defer wg.Done()
			f()
		}()
	}
	run(func() { // writer
		nd.Assert(st.PutODSQ4(ctx, roots, h1, sq) == nil, "put-succeeds")
	})
	run(func() { // reader: whatever it obtains is the whole correct block until it closes it
		acc, err := get(ctx, h1)
		if err != nil {
			nd.Cover("reader-notfound")
			nd.Assert(errors.Is(err, ErrNotFound), "lookup-reports-absent-or-serves-the-block")
			return
		}
		nd.Cover("reader-served")
		if slowReader {
			// a slow reader keeps its accessor until an operation on an
			// INDEPENDENT height (other store stripe, other data hash; it only
			// shares the cache's lock stripe, mod 256) has completed: that
			// operation must not depend on this reader letting go
			nd.Cover("slow-reader")
			<-release
		}
		verifReadsWhileRacing(acc, cells, k, roots, tag)
	})
	run(func() { // remover
		nd.Assert(st.RemoveODSQ4(ctx, h1, hash) == nil, "remove-succeeds")
	})
	if slowReader {
		run(func() { // spawned after the remover: by default it runs once the removal waits for the reader
			nd.Assert(st.PutODSQ4(ctx, roots3, h1+256, sq3) == nil, "put-succeeds")
			close(release)
		})
	}
	if withCaches {
		run(func() { // a second height pushes the first out of the one-slot caches
			nd.Cover("evicting")
			nd.Assert(st.PutODSQ4(ctx, roots2, h2, sq2) == nil, "put-succeeds")
			acc, err := get(ctx, h2)
			nd.Assert(err == nil, "stored-block-is-readable")
			verifReadsWhileRacing(acc, cells2, k, roots2, 0x22)
		})
	}
	wg.Wait()
	nd.RunOthers() // eviction closes run in their own goroutines

	// quiescence: present and fully readable, or absent and nothing left
	has, herr := st.HasByHeight(ctx, h1)
	nd.Assert(herr == nil, "existence-check-works")
	acc, gerr := get(ctx, h1)
	if has {
		nd.Cover("present-at-end")
		nd.Assert(gerr == nil, "existence-check-agrees-with-lookup")
		verifReadsCorrect(acc, cells, k, roots, tag)
	} else {
		nd.Cover("absent-at-end")
		nd.Assert(errors.Is(gerr, ErrNotFound), "existence-check-agrees-with-lookup")
		_, ok1 := veriffs.Paths["/s/blocks/"+hash.String()+".ods"]
		_, ok2 := veriffs.Paths["/s/blocks/"+hash.String()+".q4"]
		_, ok3 := veriffs.Paths["/s/blocks/heights/7.ods"]
		nd.Assert(!ok1 && !ok2 && !ok3, "absent-block-leaves-no-files-behind")
	}
	// release everything: remove both heights, then no file may remain open
	nd.Assert(st.RemoveODSQ4(ctx, h1, hash) == nil, "remove-succeeds")
	if withCaches {
		nd.Assert(st.RemoveODSQ4(ctx, h2, share.DataHash(verifHashOfTag(0x22))) == nil, "remove-succeeds")
		nd.Assert(st.RemoveODSQ4(ctx, h1+256, share.DataHash(verifHashOfTag(0x23))) == nil, "remove-succeeds")
	}
	nd.RunOthers()
	nd.Assert(veriffs.OpenHandles() == 0, "every-opened-file-is-released")
}
