//verif:overlay das/zz_verif_c13.go
//verif:pkgs ./header ./share/availability
//verif:replace (*github.com/celestiaorg/celestia-node/header.ExtendedHeader).Hash github.com/celestiaorg/celestia-node/das.verifStubHeaderHash
//verif:replace context.WithTimeout github.com/celestiaorg/celestia-node/das.verifWithTimeout
//verif:noop github.com/celestiaorg/celestia-app/v9/pkg/da
//verif:bound DASer progress: real samplingCoordinator.run + real workers under the engine's scheduler; starting checkpoint SampleFrom=s (1<=s<2^62), NetworkHead in [s-1, s+1], optionally one failed height below s; sampling range 1..2; concurrency limit 1..2; up to 2 new heads; per-height outcome ok | error | outside-window | error wrapping context.Canceled; observation at quiescence (every thread blocked or finished); schedules: round-robin plus at most 1 deviation
//verif:bound retry back-off: attempt count 0..8 symbolic, arbitrary instants < 2^60 ns
//verif:outside unbounded liveness ("eventually samples every height"): replaced by the bounded statement that at quiescence nothing samplable is left pending
//verif:assume header store and sampling function are models (any outcome per height); the per-sample timeout never fires by itself; ExtendedHeader.Hash and DAH.String (logging arguments) are stubbed
package das

import (
	"context"
	"errors"
	"fmt"
	"time"

	libhead "github.com/celestiaorg/go-header"

	"github.com/celestiaorg/celestia-app/v9/pkg/da"

	"github.com/celestiaorg/celestia-node/header"
	"github.com/celestiaorg/celestia-node/share/availability"
	nd "github.com/celestiaorg/celestia-node/verifnd"
)

func verifStubHeaderHash(eh *header.ExtendedHeader) libhead.Hash { return libhead.Hash{1} }

func verifWithTimeout(ctx context.Context, d time.Duration) (context.Context, context.CancelFunc) {
	return context.WithCancel(ctx)
}

func verifHeader(h uint64) *header.ExtendedHeader {
	eh := &header.ExtendedHeader{DAH: &da.DataAvailabilityHeader{}}
	eh.RawHeader.Height = int64(h)
	return eh
}

type verifGetter struct{}

func (verifGetter) Head(context.Context, ...libhead.HeadOption[*header.ExtendedHeader]) (*header.ExtendedHeader, error) {
	return nil, errors.New("unused")
}
func (verifGetter) Get(context.Context, libhead.Hash) (*header.ExtendedHeader, error) {
	return nil, errors.New("unused")
}
func (verifGetter) GetByHeight(_ context.Context, h uint64) (*header.ExtendedHeader, error) {
	return verifHeader(h), nil
}
func (verifGetter) GetRangeByHeight(context.Context, *header.ExtendedHeader, uint64) ([]*header.ExtendedHeader, error) {
	return nil, errors.New("unused")
}

type verifGhost struct {
	sampled  []uint64 // success or outside-window
	failedAt []uint64 // last outcome was an error
	withCanc bool
	calls    int
}

func (g *verifGhost) sampleFn(ctx context.Context, h *header.ExtendedHeader) error {
	n := 3
	if g.withCanc {
		n = 4
	}
	g.calls++
	// (6 attempts together with 3 starting heads and 2 limits did not
	// complete within the thorough budget: > 380 000 paths in 27 min)
	maxCalls := 4
	// bound: at most maxCalls sampling attempts per history (retries of a
	// height that keeps failing are otherwise unbounded under a free clock)
	nd.Assume(g.calls <= maxCalls)
	switch nd.Choice(n, "outcome") {
	case 0:
		g.sampled = append(g.sampled, h.Height())
		return nil
	case 1:
		g.sampled = append(g.sampled, h.Height())
		return availability.ErrOutsideSamplingWindow
	case 3:
		// a sampler-originated cancellation (e.g. an inner request context),
		// while the DASer itself keeps running
		g.failedAt = append(g.failedAt, h.Height())
		return fmt.Errorf("getter: %w", context.Canceled)
	}
	g.failedAt = append(g.failedAt, h.Height())
	return errors.New("sampling failed")
}

func (g *verifGhost) wasSampled(h uint64) bool {
	c := false
	for _, s := range g.sampled {
		c = nd.Or(c, s == h)
	}
	return c
}

func verifStart(withCanc bool) (*samplingCoordinator, *verifGhost, context.CancelFunc, context.Context, uint64, uint64, int) {
	start := nd.U64("start")
	nd.Assume(start >= 2 && start < 1<<62)
	heads, limits := 2, 1
	if nd.Thorough() {
		heads, limits = 3, 2
	}
	head := start - 1 + uint64(nd.Choice(heads, "head0"))
	limit := 1 + nd.Choice(limits, "limit")
	g := &verifGhost{withCanc: withCanc}
	sc := newSamplingCoordinator(Parameters{
		SamplingRange:    uint64(1 + nd.Choice(2, "range")),
		ConcurrencyLimit: limit,
		SampleTimeout:    time.Minute,
	}, verifGetter{}, g.sampleFn)
	ctx, cancel := context.WithCancel(context.Background())
	go sc.run(ctx, checkpoint{SampleFrom: start, NetworkHead: head})
	return sc, g, cancel, ctx, start, head, limit
}

// At quiescence (nothing can run any more) the coordinator has finished every
// job it started, reports catch-up done exactly when nothing is queued, in
// flight or failed, its statistics agree with what was sampled, and it stayed
// within its concurrency bounds. Covers "right after resume with nothing to
// do" (head0=0) and failing heights.
//
//verif:opts nodeadlock preempt=0 threads=8 maxwall=1500 cover=quiescent,donereported,failedkept
func VerifH_C13_QuiescentState() {
	sc, g, cancel, ctx, start, head, limit := verifStart(false)
	defer cancel()
	if nd.Choice(2, "newhead") == 1 {
		head++
		sc.listen(ctx, verifHeader(head))
	}
	nd.RunOthers()
	nd.Cover("quiescent")
	st := &sc.state
	nd.Assert(len(st.inProgress) == 0, "every-started-job-reported-its-result")
	nd.Assert(len(st.inRetry) == 0, "no-retry-left-in-flight")
	nd.Assert(st.networkHead == head, "network-head-learned")
	nd.Assert(st.next > st.networkHead, "catch-up-queue-drained")
	idle := len(st.inProgress) == 0 && len(st.failed) == 0 && st.next > st.networkHead
	nd.Assert(st.catchUpDone.Load() == idle, "catch-up-done-iff-nothing-pending")
	if idle {
		nd.Cover("donereported")
	}
	if len(st.failed) > 0 {
		nd.Cover("failedkept")
	}
	// every height is sampled or recorded as failed
	h := nd.U64("h")
	nd.Assume(start <= h && h <= head)
	_, failed := st.failed[h]
	nd.Assert(nd.Or(g.wasSampled(h), failed), "height-sampled-or-recorded-failed")
	// statistics agree with what was sampled
	stats := st.unsafeStats()
	nd.Assert(stats.NetworkHead == head && stats.CatchupHead == st.next-1, "stats-heads")
	nd.Assert(nd.Implies(h <= stats.SampledChainHead, g.wasSampled(h)), "sampled-chain-head-below-every-unsampled-height")
	nd.Assert(stats.CatchUpDone == idle, "stats-catch-up-done")
	nd.Assert(len(stats.Workers) <= 2*limit, "stats-workers-within-bound")
}

// Progress when heads arrive faster than they are sampled: every sample blocks
// until released, so both worker slots of a DASer that is caught up (or one
// height behind) are busy while 2..3 consecutive heads arrive and the
// coordinator has to drop newest-head jobs. Once sampling proceeds, at
// quiescence every known height has been sampled and the statistics do not
// claim more than that.
//
//verif:opts nodeadlock preempt=0 threads=10 maxwall=1500 cover=quiescent,dropped
func VerifH_C13_ProgressAfterHeadsWereDropped() {
	start := nd.U64("start")
	nd.Assume(start >= 2 && start < 1<<62)
	head := start - 1 + uint64(nd.Choice(2, "backlog")) // caught up, or one height to catch up
	gate := make(chan struct{})
	g := &verifGhost{}
	slow := func(ctx context.Context, h *header.ExtendedHeader) error {
		select {
		case <-gate:
		case <-ctx.Done():
			return ctx.Err()
		}
		g.sampled = append(g.sampled, h.Height())
		return nil
	}
	sc := newSamplingCoordinator(Parameters{
		SamplingRange:    uint64(1 + nd.Choice(2, "range")),
		ConcurrencyLimit: 1,
		SampleTimeout:    time.Minute,
	}, verifGetter{}, slow)
	ctx, cancel := context.WithCancel(context.Background())
	defer cancel()
	go sc.run(ctx, checkpoint{SampleFrom: start, NetworkHead: head})
	nd.RunOthers()
	n := 2 + nd.Choice(2, "heads")
	for i := 0; i < n; i++ {
		head++
		sc.listen(ctx, verifHeader(head))
		nd.RunOthers()
	}
	stats, err := sc.stats(ctx)
	nd.Assert(err == nil, "stats-available")
	nd.Assert(len(stats.Workers) <= 2, "at-most-twice-the-limit-including-recent-jobs")
	if len(stats.Workers) == 2 && n == 3 {
		nd.Cover("dropped") // the third head found both slots busy
	}
	close(gate) // sampling proceeds
	nd.RunOthers()
	nd.Cover("quiescent")
	st := &sc.state
	nd.Assert(len(st.inProgress) == 0, "every-started-job-reported-its-result")
	nd.Assert(st.networkHead == head, "network-head-learned")
	h := nd.U64("h")
	nd.Assume(start <= h && h <= head)
	nd.Assert(g.wasSampled(h), "every-known-height-sampled-once-sampling-proceeds")
	nd.Assert(st.catchUpDone.Load(), "catch-up-done-when-nothing-is-pending")
	fin := st.unsafeStats()
	nd.Assert(nd.Implies(h <= fin.SampledChainHead, g.wasSampled(h)), "sampled-chain-head-below-every-unsampled-height")
}

// A job whose sampler returns an error that wraps context.Canceled while the
// DASer keeps running still reports its outcome.
//
//verif:opts nodeadlock preempt=0 threads=8 maxwall=1500 cover=quiescent
func VerifH_C13_WorkerAlwaysReports() {
	sc, g, cancel, _, start, head, _ := verifStart(true)
	defer cancel()
	nd.RunOthers()
	nd.Cover("quiescent")
	st := &sc.state
	nd.Assert(len(st.inProgress) == 0, "every-started-job-reported-its-result")
	h := nd.U64("h")
	nd.Assume(start <= h && h <= head)
	_, failed := st.failed[h]
	nd.Assert(nd.Or(g.wasSampled(h), failed), "height-sampled-or-recorded-failed")
}

// Concurrency bounds hold at every point the coordinator blocks in its select.
//
//verif:opts nodeadlock preempt=0 threads=10 maxwall=1500 cover=observed
func VerifH_C13_ConcurrencyBounds() {
	sc, _, cancel, ctx, _, head, limit := verifStart(false)
	defer cancel()
	rounds := 1
	if nd.Thorough() {
		rounds = 2
	}
	for i := 0; i <= rounds; i++ {
		if i > 0 {
			head++
			sc.listen(ctx, verifHeader(head))
		}
		stats, err := sc.stats(ctx)
		nd.Assert(err == nil, "stats-available")
		nd.Cover("observed")
		// catch-up is reported done exactly when nothing is queued, in flight
		// or failed - at every point the coordinator can be observed
		idle := len(stats.Workers) == 0 && len(stats.Failed) == 0 && stats.CatchupHead >= stats.NetworkHead
		nd.Assert(stats.CatchUpDone == idle, "catch-up-done-iff-nothing-pending")
		nd.Assert(len(stats.Workers) <= 2*limit, "at-most-twice-the-limit-including-recent-jobs")
		nonRecent := 0
		for _, w := range stats.Workers {
			if w.JobType != recentJob {
				nonRecent++
			}
		}
		nd.Assert(nonRecent <= limit, "catch-up-and-retry-jobs-within-the-limit")
	}
}

// Back-off: the attempt count of a failing height never decreases and the
// delay saturates at the last configured interval.
//
//verif:opts nopanic cover=within,exceeded
func VerifH_C13_Backoff() {
	s := newRetryStrategy(exponentialBackoff(defaultBackoffInitialInterval, defaultBackoffMultiplier, defaultBackoffMaxRetryCount))
	count := nd.Int("count")
	nd.Assume(count >= 0 && count <= 8)
	now := time.Now()
	next, exceeded := s.nextRetry(retryAttempt{count: count}, now)
	nd.Assert(next.count == count+1, "attempt-count-increases-by-one")
	nd.Assert(next.after.After(now), "next-attempt-after-a-delay")
	if exceeded {
		nd.Cover("exceeded")
		nd.Assert(count+1 > len(s.retryIntervals), "exceeded-only-past-the-configured-attempts")
		nd.Assert(next.after.Sub(now) == s.retryIntervals[len(s.retryIntervals)-1], "delay-saturates-at-last-interval")
	} else {
		nd.Cover("within")
		nd.Assert(next.after.Sub(now) == s.retryIntervals[count], "delay-is-the-configured-interval")
	}
	for i := 1; i < len(s.retryIntervals); i++ {
		nd.Assert(s.retryIntervals[i] > s.retryIntervals[i-1], "intervals-grow")
	}
}

// The coordinator's bookkeeping of a retry: a height that failed c times and
// fails again inside its retry job is recorded with c+1 attempts and a later
// retry time; one that succeeds leaves both maps; a first failure (recent or
// catch-up job) starts at one attempt. From an arbitrary attempt count.
//
//verif:opts nopanic cover=failed-again,succeeded,first-failure,not-yet
func VerifH_C13_RetryBookkeepingKeepsTheAttemptCount() {
	st := newCoordinatorState(Parameters{SamplingRange: 2})
	st.networkHead, st.next = 20, 21
	const h = uint64(9)
	count := nd.Int("count")
	nd.Assume(count >= 1 && count <= 8)
	due := nd.Bool("backoffElapsed")
	// the model clock is an arbitrary non-decreasing instant in [1, 2^60) ns:
	// instant 0 is always in the past, 2^61 always in the future
	after := time.Unix(0, 0)
	if !due {
		after = time.Unix(0, 1<<61)
	}
	st.failed[h] = retryAttempt{count: count, after: after}

	if nd.Choice(2, "kind") == 0 {
		// the height is picked up by a retry job
		j, found := st.retryJob()
		if !due {
			nd.Cover("not-yet")
			nd.Assert(!found && st.failed[h].count == count, "height-is-not-retried-before-its-back-off-elapsed")
			return
		}
		nd.Assert(found && j.jobType == retryJob && j.from == h && j.to == h, "due-height-gets-a-retry-job")
		_, stillFailed := st.failed[h]
		nd.Assert(!stillFailed && st.inRetry[h].count == count, "height-in-retry-keeps-its-attempt-count")
		res := result{job: j}
		failsAgain := nd.Bool("failsAgain")
		if failsAgain {
			res.failed = map[uint64]int{h: 1}
		}
		before := time.Now()
		st.handleResult(res)
		_, inRetry := st.inRetry[h]
		nd.Assert(!inRetry, "finished-retry-leaves-the-in-retry-set")
		f, failed := st.failed[h]
		if failsAgain {
			nd.Cover("failed-again")
			nd.Assert(failed && f.count == count+1, "attempt-count-increases-by-one")
			nd.Assert(f.after.After(before), "next-attempt-after-a-delay")
		} else {
			nd.Cover("succeeded")
			nd.Assert(!failed, "successful-retry-clears-the-failure")
		}
		return
	}
	// a fresh failure reported by a catch-up job starts the count at one
	nd.Cover("first-failure")
	const h2 = uint64(12)
	j := st.newJob(catchupJob, 12, 13)
	st.handleResult(result{job: j, failed: map[uint64]int{h2: 1}})
	nd.Assert(st.failed[h2].count == 1, "first-failure-counts-one-attempt")
	nd.Assert(st.failed[h].count == count, "other-heights-keep-their-attempt-count")
}
