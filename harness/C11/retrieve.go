//verif:overlay blob/zz_verif_c11.go
//verif:pkgs ./header ./share ./share/shwap ./libs/utils github.com/celestiaorg/go-square/v4/share github.com/celestiaorg/nmt
//verif:replace github.com/celestiaorg/go-square/v4/share.ParseBlobs github.com/celestiaorg/celestia-node/blob.verifParseBlobs
//verif:replace github.com/celestiaorg/go-square/v4/inclusion.CreateCommitment github.com/celestiaorg/celestia-node/blob.verifCreateCommitment
//verif:noop github.com/celestiaorg/celestia-app/v9/pkg/da
//verif:bound blob retrieval: a namespace run of up to 4 (quick) / 6 (thorough) shares built from items "padding share" or "blob of 1..3 shares" whose sequence length is a symbolic 32-bit value constrained only to need that many shares, share version 0 or 1 per blob; laid out from any start column over ODS rows of width 2 or 4, preceded by 0..1 rows that do not contain the namespace; all other share bytes zero
//verif:assume libshare.ParseBlobs and inclusion.CreateCommitment are replaced: the parsed blob is identified by (number of shares, first share's sequence length) and its commitment is that identity; the share getter returns the honest rows of the namespace (C02/C06 cover what it may return)
//verif:outside blob data/signer bytes and the commitment hash (go-square); squares the real builder cannot produce
package blob

import (
	"context"
	"encoding/binary"
	"errors"

	"github.com/celestiaorg/go-square/merkle"
	libshare "github.com/celestiaorg/go-square/v4/share"
	"github.com/celestiaorg/nmt"

	"github.com/celestiaorg/celestia-app/v9/pkg/da"

	"github.com/celestiaorg/celestia-node/header"
	"github.com/celestiaorg/celestia-node/share/shwap"
	nd "github.com/celestiaorg/celestia-node/verifnd"
)

// ---- stubs -----------------------------------------------------------------

func verifParseBlobs(shares []libshare.Share) ([]*libshare.Blob, error) {
	if len(shares) == 0 {
		return nil, errors.New("no shares")
	}
	// identity: number of shares + the sequence length of the first share
	data := make([]byte, 8)
	binary.BigEndian.PutUint32(data, uint32(len(shares)))
	binary.BigEndian.PutUint32(data[4:], shares[0].SequenceLen())
	ns := shares[0].Namespace()
	b, err := libshare.NewV0Blob(ns, data)
	if err != nil {
		return nil, err
	}
	return []*libshare.Blob{b}, nil
}

func verifCreateCommitment(b *libshare.Blob, _ inclusionHasher, _ int) ([]byte, error) {
	return append([]byte{0xc0}, b.Data()...), nil
}

type inclusionHasher = func([][]byte) []byte

var _ = merkle.HashFromByteSlices

// ---- layout ----------------------------------------------------------------

var verifNs = libshare.MustNewV0Namespace([]byte("verifns"))

type verifItem struct {
	pos    int // position of the first share in the namespace run
	n      int // shares
	seqLen uint32
}

func verifShare(info byte, seqLen uint32, start bool) libshare.Share {
	raw := make([]byte, libshare.ShareSize)
	copy(raw, verifNs.Bytes())
	raw[libshare.NamespaceSize] = info
	if start {
		binary.BigEndian.PutUint32(raw[libshare.NamespaceSize+1:], seqLen)
	}
	sh, err := libshare.NewShare(raw)
	nd.Assume(err == nil)
	return sh
}

// builds the namespace run and the reference list of blobs
func verifRun(maxShares int) ([]libshare.Share, []verifItem) {
	var run []libshare.Share
	var ref []verifItem
	for len(run) < maxShares {
		kind := nd.Choice(5, "item") // 0 stop, 1 padding, 2..4 blob of 1..3 shares
		if kind == 0 {
			break
		}
		if kind == 1 {
			run = append(run, verifShare(1, 0, true)) // version 0, sequence start, length 0
			continue
		}
		n := kind - 1
		if len(run)+n > maxShares {
			break
		}
		ver := byte(nd.Choice(2, "version"))
		seqLen := nd.U32("seqLen")
		signer := ver == 1
		nd.Assume(seqLen >= 1 && seqLen < 482*4)
		nd.Assume(libshare.SparseSharesNeeded(seqLen, signer) == n)
		ref = append(ref, verifItem{pos: len(run), n: n, seqLen: seqLen})
		run = append(run, verifShare(ver<<1|1, seqLen, true))
		for i := 1; i < n; i++ {
			run = append(run, verifShare(ver<<1, 0, false))
		}
	}
	return run, ref
}

type verifGetter struct {
	shwap.Getter
	rows shwap.NamespaceData
}

func (g *verifGetter) GetNamespaceData(context.Context, *header.ExtendedHeader, libshare.Namespace) (shwap.NamespaceData, error) {
	return g.rows, nil
}

func verifRoot(min, max libshare.Namespace) []byte {
	r := make([]byte, 0, 2*libshare.NamespaceSize+32)
	r = append(r, min.Bytes()...)
	r = append(r, max.Bytes()...)
	return append(r, make([]byte, 32)...)
}

// Listing a namespace returns exactly the blobs laid out in the block, in
// order, each with the index of its first share - however the blobs sit in the
// rows (spanning rows, after padding, adjacent, identical).
//
//verif:opts nopanic nodeadlock maxwall_thorough=3600 cover=blobs,empty,spanning,padding
func VerifH_C11_GetAll() {
	s, eh, ref, w, skipRows, c0, nrows := verifBlock()
	if nrows > 1 {
		nd.Cover("spanning")
	}
	blobs, err := s.getBlobs(context.Background(), verifNs, eh)
	nd.Assert(err == nil, "well-formed-layout-is-parsed")
	nd.Assert(len(blobs) == len(ref), "exactly-the-blobs-in-the-block")
	if len(ref) == 0 {
		nd.Cover("empty")
	} else {
		nd.Cover("blobs")
	}
	if len(ref) > 0 && ref[0].pos > 0 {
		nd.Cover("padding")
	}
	for i := range blobs {
		if i >= len(ref) {
			break
		}
		it := ref[i]
		abs := c0 + it.pos
		wantIdx := (skipRows+abs/w)*(2*w) + abs%w
		nd.Assert(blobs[i].index == wantIdx, "start-index-of-its-first-share")
		d := blobs[i].Data()
		nd.Assert(len(d) == 8 && binary.BigEndian.Uint32(d) == uint32(it.n) && binary.BigEndian.Uint32(d[4:]) == it.seqLen,
			"blob-made-of-exactly-its-own-shares")
	}
}

// Fetching by commitment returns the (first) blob with that commitment if
// and only if the block contains one; otherwise "blob not found".
//
//verif:opts nopanic nodeadlock maxwall_thorough=3600 cover=found,notfound
func VerifH_C11_GetByCommitment() {
	s, _, ref, w, skipRows, c0, _ := verifBlock()
	// the commitment asked for: identity (n, seqLen) of an arbitrary blob
	n := 1 + nd.Choice(3, "wantShares")
	seqLen := nd.U32("wantSeqLen")
	want := make([]byte, 9)
	want[0] = 0xc0
	binary.BigEndian.PutUint32(want[1:], uint32(n))
	binary.BigEndian.PutUint32(want[5:], seqLen)
	b, err := s.Get(context.Background(), 5, verifNs, want)
	first := -1
	for i := len(ref) - 1; i >= 0; i-- {
		if ref[i].n == n && ref[i].seqLen == seqLen {
			first = i
		}
	}
	if first < 0 {
		nd.Cover("notfound")
		nd.Assert(b == nil && errors.Is(err, ErrBlobNotFound), "absent-commitment-is-blob-not-found")
		return
	}
	nd.Cover("found")
	nd.Assert(err == nil && b != nil, "present-commitment-is-found")
	abs := c0 + ref[first].pos
	nd.Assert(b.index == (skipRows+abs/w)*(2*w)+abs%w, "start-index-of-its-first-share")
}

// The proof returned for a commitment consists of the row proofs of exactly the
// rows the (first) blob with that commitment occupies - not of rows an earlier
// blob of the namespace ended in - so that Included accepts the honest proof.
//
//verif:opts nopanic nodeadlock maxwall_thorough=3600 cover=onerow,multirow,afterspanning
func VerifH_C11_ProofRows() {
	s, _, ref, w, _, c0, _ := verifBlock()
	rows := s.shareGetter.(*verifGetter).rows
	// the commitment asked for: that of an arbitrary blob of the block (absent
	// commitments: VerifH_C11_GetByCommitment)
	if len(ref) == 0 {
		nd.End()
	}
	k := nd.Choice(len(ref), "wantBlob")
	n, seqLen := ref[k].n, ref[k].seqLen
	want := make([]byte, 9)
	want[0] = 0xc0
	binary.BigEndian.PutUint32(want[1:], uint32(n))
	binary.BigEndian.PutUint32(want[5:], seqLen)
	// the first blob with that commitment (an earlier byte-identical one wins)
	first := k
	for i := k - 1; i >= 0; i-- {
		if ref[i].n == n && ref[i].seqLen == seqLen {
			first = i
		}
	}
	proof, err := s.GetProof(context.Background(), 5, verifNs, want)
	nd.Assert(err == nil && proof != nil, "present-commitment-has-a-proof")
	r0 := (c0 + ref[first].pos) / w
	r1 := (c0 + ref[first].pos + ref[first].n - 1) / w
	if r0 == r1 {
		nd.Cover("onerow")
	} else {
		nd.Cover("multirow")
	}
	if first > 0 && (c0+ref[first-1].pos)/w < r0 && (c0+ref[first-1].pos+ref[first-1].n-1)/w == r0 {
		nd.Cover("afterspanning") // the previous blob spilled into the row this one starts in
	}
	nd.Assert(len(*proof) == r1-r0+1, "one-row-proof-per-row-the-blob-occupies")
	for i, p := range *proof {
		if r0+i < len(rows) {
			nd.Assert(p == rows[r0+i].Proof, "row-proofs-are-those-of-the-blobs-own-rows")
		}
	}
}

// verifBlock builds the block layout and the service over it.
func verifBlock() (*Service, *header.ExtendedHeader, []verifItem, int, int, int, int) {
	maxShares := 4
	if nd.Thorough() {
		maxShares = 6
	}
	w := 2 << nd.Choice(2, "odsWidth") // 2 or 4
	skipRows := nd.Choice(2, "rowsBefore")
	c0 := nd.Choice(w, "startCol")
	run, ref := verifRun(maxShares)
	if len(run) == 0 {
		nd.End()
	}

	// rows
	var rows shwap.NamespaceData
	small := libshare.MustNewV0Namespace([]byte("aaa"))
	roots := [][]byte{}
	for i := 0; i < skipRows; i++ {
		roots = append(roots, verifRoot(small, small))
	}
	pos, col := 0, c0
	for pos < len(run) {
		n := w - col
		if n > len(run)-pos {
			n = len(run) - pos
		}
		p := nmt.NewInclusionProof(col, col+n, nil, true)
		rows = append(rows, shwap.RowNamespaceData{Shares: run[pos : pos+n], Proof: &p})
		roots = append(roots, verifRoot(verifNs, verifNs))
		pos += n
		col = 0
	}
	if len(roots) > w {
		// the run does not fit into the ODS rows of this square: not a layout
		// a block can have (without this guard the row-root list grew beyond
		// 2w and the thorough tier reported indices "wrong" relative to a
		// square that does not exist)
		nd.End()
	}
	for len(roots) < 2*w {
		roots = append(roots, verifRoot(libshare.ParitySharesNamespace, libshare.ParitySharesNamespace))
	}
	eh := &header.ExtendedHeader{DAH: &da.DataAvailabilityHeader{RowRoots: roots, ColumnRoots: roots}}
	eh.RawHeader.Height = 5
	s := &Service{
		ctx:          context.Background(),
		shareGetter:  &verifGetter{rows: rows},
		headerGetter: func(context.Context, uint64) (*header.ExtendedHeader, error) { return eh, nil },
	}
	return s, eh, ref, w, skipRows, c0, len(rows)
}
