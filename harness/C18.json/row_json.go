//verif:overlay share/shwap/zz_verif_c18_json.go
//verif:pkgs github.com/celestiaorg/go-square/v4/share
//verif:init github.com/celestiaorg/go-square/v4/share github.com/celestiaorg/celestia-node/share/shwap
//verif:replace encoding/json.Unmarshal github.com/celestiaorg/celestia-node/share/shwap.verifJSONUnmarshal
//verif:bound Row JSON decoder: the reflective encoding/json step is a model that yields an ARBITRARY decoded object - 0..2 shares and a side string drawn from the three valid names, the empty string, a wrong-case name, a number and an unknown word - or a syntax error
//verif:assume encoding/json.Unmarshal is a model (reflection is outside the interpreter): it either fails or fills the target struct with the chosen field values; what is decided is what the repository's UnmarshalJSON does with them
package shwap

import (
	"errors"

	libshare "github.com/celestiaorg/go-square/v4/share"

	nd "github.com/celestiaorg/celestia-node/verifnd"
)

var (
	verifJSONFails  bool
	verifJSONShares []libshare.Share
	verifJSONSide   string
)

func verifJSONUnmarshal(data []byte, v any) error {
	if verifJSONFails {
		return errors.New("json: syntax error")
	}
	p, ok := v.(*struct {
		Shares []libshare.Share `json:"shares"`
		Side   string           `json:"side"`
	})
	if !ok {
		return errors.New("stub json: unexpected target type")
	}
	p.Shares, p.Side = verifJSONShares, verifJSONSide
	return nil
}

// The Row JSON decoder never panics: it yields a row with the decoded side,
// or an error for a side it does not know.
//
//verif:opts nopanic nodeadlock noreplay cover=decoded,refused,syntax
func VerifH_C18_RowJSONDecoderNeverPanics() {
	verifJSONFails = nd.Choice(2, "syntaxError") == 1
	sides := []string{"LEFT", "RIGHT", "BOTH", "", "left", "2", "MIDDLE"}
	verifJSONSide = sides[nd.Choice(len(sides), "side")]
	verifJSONShares = nil
	for i := nd.Choice(3, "shares"); i > 0; i-- {
		verifJSONShares = append(verifJSONShares, libshare.TailPaddingShare())
	}
	var r Row
	err := r.UnmarshalJSON([]byte(`{}`))
	switch {
	case verifJSONFails:
		nd.Cover("syntax")
		nd.Assert(err != nil, "syntax-error-is-reported")
	case verifJSONSide == "LEFT" || verifJSONSide == "RIGHT" || verifJSONSide == "BOTH":
		nd.Cover("decoded")
		nd.Assert(err == nil && r.side.String() == verifJSONSide && len(r.shares) == len(verifJSONShares), "valid-row-decodes-to-an-equal-value")
	default:
		nd.Cover("refused")
		nd.Assert(err != nil, "unknown-side-is-refused-not-guessed")
	}
}
