//verif:overlay share/shwap/p2p/shrex/peers/zz_verif_c17.go
//verif:pkgs github.com/benbjohnson/clock
//verif:bound peer pool, inductive step: arbitrary pool state over 3 known peer ids (each absent or present with a symbolic status, any list order, symbolic nextIdx/activeCount/hasPeer) satisfying the representation invariant, then ONE real operation (add/remove/tryGet/putOnCooldown/afterCooldown/cleanup via remove) with any of 4 peer arguments
//verif:bound deadlock: 2-3 threads (caller, cool-down timer callback, second caller), every schedule with at most 2 scheduling deviations at synchronisation operations of the peers package
//verif:assume clock: benbjohnson real clock over the engine's time model (time.Now non-decreasing symbolic instants; AfterFunc callbacks fire at any scheduling point after being armed)
//verif:outside libp2p connection events, gossip validation wiring, real timers
package peers

import (
	"context"
	"time"

	"github.com/libp2p/go-libp2p/core/peer"

	nd "github.com/celestiaorg/celestia-node/verifnd"
)

var verifIDs = []peer.ID{"peerA", "peerB", "peerC", "peerD"}

// arbitrary pool satisfying the representation invariant
func verifArbPool() *pool {
	p := newPool(time.Second)
	var present []peer.ID
	for _, id := range verifIDs[:3] {
		if nd.Choice(2, "present") == 1 {
			present = append(present, id)
		}
	}
	// any order of the list
	for len(present) > 0 {
		k := nd.Choice(len(present), "order")
		p.peersList = append(p.peersList, present[k])
		present = append(present[:k:k], present[k+1:]...)
	}
	act := 0
	for _, id := range p.peersList {
		st := status(nd.Int("status"))
		nd.Assume(st >= active && st <= removed)
		p.statuses[id] = st
		act += nd.IteInt(st == active, 1, 0)
	}
	p.activeCount = act
	p.nextIdx = nd.Int("nextIdx")
	nd.Assume(p.nextIdx >= 0 && p.nextIdx <= len(p.peersList)+1)
	p.hasPeer = act > 0
	if p.hasPeer {
		close(p.hasPeerCh)
	}
	p.cleanupThreshold = 1 + nd.Choice(2, "threshold")
	return p
}

func verifInv(p *pool) bool {
	ok := true
	act := 0
	for _, id := range p.peersList {
		st, in := p.statuses[id]
		ok = nd.And(ok, in)
		act += nd.IteInt(st == active, 1, 0)
	}
	ok = nd.And(ok, len(p.peersList) == len(p.statuses))
	for i := range p.peersList {
		for j := i + 1; j < len(p.peersList); j++ {
			ok = nd.And(ok, p.peersList[i] != p.peersList[j])
		}
	}
	ok = nd.And(ok, p.activeCount == act)
	ok = nd.And(ok, p.hasPeer == (act > 0))
	ok = nd.And(ok, p.nextIdx >= 0)
	return ok
}

func verifClosed(ch chan struct{}) bool {
	select {
	case <-ch:
		return true
	default:
		return false
	}
}

// Every pool operation preserves the representation invariant from ANY state
// satisfying it (so histories of any length do), tryGet hands out only active
// peers, and the has-peer channel is closed exactly while a peer is active.
//
//verif:opts nopanic nodeadlock cover=got,none,cooled,reactivated
func VerifH_C17_PoolStep() {
	p := verifArbPool()
	nd.Assert(verifInv(p), "arbitrary-state-satisfies-invariant")
	arg := verifIDs[nd.Choice(4, "arg")]
	pre, had := p.statuses[arg]
	switch nd.Choice(5, "op") {
	case 0:
		p.add(arg)
		st := p.statuses[arg]
		nd.Assert(st == active || (had && pre == cooldown && st == cooldown), "add-activates-unless-cooling-down")
	case 1:
		p.remove(arg)
		st, in := p.statuses[arg]
		nd.Assert(!in || st == removed, "removed")
	case 2:
		id, ok := p.tryGet()
		if ok {
			nd.Cover("got")
			nd.Assert(p.statuses[id] == active, "only-active-peers-are-handed-out")
		} else {
			nd.Cover("none")
			nd.Assert(p.activeCount == 0, "a-peer-is-found-when-one-is-active")
		}
	case 3:
		p.putOnCooldown(arg)
		if had && pre == active {
			nd.Cover("cooled")
			nd.Assert(p.statuses[arg] == cooldown, "on-cooldown")
			id, ok := p.tryGet()
			nd.Assert(!ok || id != arg, "peer-on-cooldown-is-not-offered")
		}
	case 4:
		p.afterCooldown(arg)
		if had && pre == cooldown {
			nd.Cover("reactivated")
			nd.Assert(p.statuses[arg] == active, "active-again-after-cooldown")
		} else if had {
			nd.Assert(p.statuses[arg] == pre, "no-effect-unless-cooling-down")
		}
	}
	nd.Assert(verifInv(p), "invariant-preserved")
	nd.Assert(verifClosed(p.hasPeerCh) == (p.activeCount > 0), "has-peer-signal-matches-active-count")
}

// No interleaving of request outcomes (cool-down), cool-down expiry (timer
// callback) and a further request outcome can hang the pool.
//
//verif:opts nodeadlock noreplay preempt=2 threads=10 cover=done
func VerifH_C17_NoDeadlock() {
	p := newPool(time.Second)
	p.add("peerA", "peerB")
	done := make(chan struct{}, 2)
	go func() {
		p.putOnCooldown("peerA")
		done <- struct{}{}
	}()
	go func() {
		p.putOnCooldown("peerB")
		done <- struct{}{}
	}()
	<-done
	<-done
	nd.RunOthers()
	_ = p.len()
	nd.Cover("done")
}

// A caller waiting in next() is woken when a peer becomes available (added,
// or back from cool-down) and honours cancellation.
//
//verif:opts nodeadlock noreplay preempt=1 threads=10 cover=woken,cancelled
func VerifH_C17_WaitersWoken() {
	p := newPool(time.Second)
	ctx, cancel := context.WithCancel(context.Background())
	defer cancel()
	// the pool has no active peer: it is empty, or its only peer is cooling down
	cooling := nd.Choice(2, "peerCoolingDown") == 1
	if cooling {
		// (the state putOnCooldown leaves behind, without arming its timer:
		// under the model's free clock the cool-down could end at any moment
		// and hand peerB to the waiter - legitimately)
		p.add("peerB")
		p.m.Lock()
		p.statuses["peerB"] = cooldown
		p.activeCount--
		p.checkHasPeers()
		p.m.Unlock()
	}
	ch := p.next(ctx)
	nd.RunOthers()
	select {
	case <-ch:
		nd.Assert(false, "no-peer-handed-out-from-an-empty-pool")
	default:
	}
	// while the waiter is parked, operations that change nothing hit the pool
	switch nd.Choice(3, "noopWhileWaiting") {
	case 1:
		p.remove("unknown")
	case 2:
		if cooling {
			p.add("peerB") // re-announcing a peer that is cooling down
		} else {
			p.remove("peerA") // never added
		}
	}
	switch nd.Choice(3, "how") {
	case 0:
		p.add("peerA")
	case 1:
		p.add("peerA")
		p.putOnCooldown("peerA")
		p.afterCooldown("peerA")
	case 2:
		cancel()
		nd.RunOthers()
		nd.Cover("cancelled")
		select {
		case <-ch:
			nd.Assert(false, "no-peer-after-cancel")
		default:
		}
		return
	}
	nd.RunOthers()
	select {
	case id := <-ch:
		nd.Cover("woken")
		nd.Assert(id == "peerA", "woken-with-the-available-peer")
	default:
		nd.Assert(false, "waiter-woken-when-a-peer-becomes-available")
	}
}
