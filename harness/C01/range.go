//verif:overlay share/shwap/zz_verif_c01_range.go
//verif:bound share-range verification: honest ODS of width 2 (quick) in one namespace with symbolic share contents, committed through the real extension + tree code over the ideal hash/codec; request: every (from,to) coordinate pair of the ODS; response: an ARBITRARY RangeNamespaceData value - 1..3 rows of 1..2 (quick) shares with symbolic contents, each incomplete-row proof absent or present with symbolic start/end and 0..2 arbitrary 90-byte nodes
//verif:outside byte-level mutations of the protobuf encoding; the nmt/rsmt2d/SHA-256 implementations themselves (ideal model)
package shwap

import (
	"bytes"

	libshare "github.com/celestiaorg/go-square/v4/share"
	"github.com/celestiaorg/nmt"

	"github.com/celestiaorg/celestia-node/share"
	nd "github.com/celestiaorg/celestia-node/verifnd"
)

func verifArbProof(tag string) *nmt.Proof {
	if nd.Choice(2, tag+".present") == 0 {
		return nil
	}
	start, end := nd.Int(tag+".start"), nd.Int(tag+".end")
	nd.Assume(start >= 0 && start <= 4 && end >= 0 && end <= 4)
	n := nd.Choice(3, tag+".nodes")
	nodes := make([][]byte, n)
	for i := range nodes {
		node := make([]byte, 90)
		// min/max namespace: arbitrary; digest: 8 symbolic bytes (the ideal
		// digest's range), rest zero
		copy(node, nd.Bytes(2*libshare.NamespaceSize+8, tag+".node"))
		nodes[i] = node
	}
	p := nmt.NewInclusionProof(start, end, nodes, true)
	return &p
}

// A share-range response that verifies carries exactly the committed shares
// of the requested range, in order.
//
//verif:opts nopanic noreplay maxwall=1700 cover=accepted,rejected
func VerifH_C01_RangeSound() {
	verifReset()
	const w = 2
	ods, roots := verifCommit(w)
	// request
	fromIdx := nd.Choice(w*w, "from")
	toIdx := fromIdx + nd.Choice(w*w-fromIdx, "len")
	from := SampleCoords{Row: fromIdx / w, Col: fromIdx % w}
	to := SampleCoords{Row: toIdx / w, Col: toIdx % w}
	// arbitrary response
	nrows := 1 + nd.Choice(3, "rows")
	rng := &RangeNamespaceData{Shares: make([][]libshare.Share, nrows)}
	for i := range rng.Shares {
		n := 1 + nd.Choice(w, "rowlen")
		rng.Shares[i] = make([]libshare.Share, n)
		for j := range rng.Shares[i] {
			rng.Shares[i][j] = verifSymShare(verifNS, "resp")
		}
	}
	rng.FirstIncompleteRowProof = verifArbProof("first")
	rng.LastIncompleteRowProof = verifArbProof("last")

	err := rng.VerifyInclusion(from, to, w, roots[from.Row:to.Row+1])
	if err != nil {
		nd.Cover("rejected")
		return
	}
	nd.Cover("accepted")
	got := rng.Flatten()
	nd.Assert(len(got) == toIdx-fromIdx+1, "exactly-the-requested-number-of-shares")
	for k, sh := range got {
		idx := fromIdx + k
		if idx > toIdx {
			break
		}
		want := ods[idx/w][idx%w]
		nd.Assert(bytes.Equal(sh.ToBytes(), want.ToBytes()), "share-at-its-position-is-the-committed-share")
	}
}

// Focused instance: a two-row request (0,0)-(1,0); response of two rows whose
// lengths are free. (Kept as a fast regression for the row-length checks.)
//
//verif:opts nopanic noreplay maxwall=900 cover=accepted,rejected
func VerifH_C01_RangeTwoRows() {
	verifReset()
	const w = 2
	ods, roots := verifCommit(w)
	from, to := SampleCoords{Row: 0, Col: 0}, SampleCoords{Row: 1, Col: 0}
	rng := &RangeNamespaceData{Shares: make([][]libshare.Share, 2)}
	for i := range rng.Shares {
		n := 1 + nd.Choice(w, "rowlen")
		rng.Shares[i] = make([]libshare.Share, n)
		for j := range rng.Shares[i] {
			rng.Shares[i][j] = verifSymShare(verifNS, "resp")
		}
	}
	rng.FirstIncompleteRowProof = verifArbProof("first")
	rng.LastIncompleteRowProof = verifArbProof("last")
	err := rng.VerifyInclusion(from, to, w, roots[0:2])
	if err != nil {
		nd.Cover("rejected")
		return
	}
	nd.Cover("accepted")
	got := rng.Flatten()
	want := []libshare.Share{ods[0][0], ods[0][1], ods[1][0]}
	nd.Assert(len(got) == len(want), "exactly-the-requested-number-of-shares")
	for k := range want {
		if k < len(got) {
			nd.Assert(bytes.Equal(got[k].ToBytes(), want[k].ToBytes()), "share-at-its-position-is-the-committed-share")
		}
	}
}

// The response the serving side builds for a request verifies (completeness).
//
//verif:opts nopanic noreplay cover=served
func VerifH_C01_RangeHonestAccepted() {
	verifReset()
	const w = 2
	ods, roots := verifCommit(w)
	fromIdx := nd.Choice(w*w, "from")
	toIdx := fromIdx + nd.Choice(w*w-fromIdx, "len")
	from := SampleCoords{Row: fromIdx / w, Col: fromIdx % w}
	to := SampleCoords{Row: toIdx / w, Col: toIdx % w}
	var ext [][]libshare.Share
	for r := from.Row; r <= to.Row; r++ {
		e, err := share.ExtendShares(ods[r])
		nd.Assume(err == nil)
		ext = append(ext, e)
	}
	rng, err := RangeNamespaceDataFromShares(ext, from, to)
	nd.Assert(err == nil, "honest-response-is-built")
	nd.Cover("served")
	nd.Assert(rng.VerifyInclusion(from, to, w, roots[from.Row:to.Row+1]) == nil, "honest-response-verifies")
	got := rng.Flatten()
	nd.Assert(len(got) == toIdx-fromIdx+1, "honest-response-has-the-requested-shares")
}
