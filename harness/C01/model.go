//verif:overlay share/shwap/zz_verif_c01_model.go
//verif:pkgs ./share github.com/celestiaorg/go-square/v4/share github.com/celestiaorg/nmt github.com/celestiaorg/nmt/namespace github.com/celestiaorg/celestia-app/v9/pkg/wrapper
//verif:replace github.com/celestiaorg/celestia-node/share.NewSHA256Hasher github.com/celestiaorg/celestia-node/share/shwap.verifNewHash
//verif:replace (*github.com/celestiaorg/rsmt2d.LeoRSCodec).Encode github.com/celestiaorg/celestia-node/share/shwap.verifLeoEncode
//verif:replace (*github.com/celestiaorg/rsmt2d.LeoRSCodec).Decode github.com/celestiaorg/celestia-node/share/shwap.verifLeoDecode
//verif:assume ideal commitment model: SHA-256 is an injective function (random oracle: equal digests iff equal inputs, digest = 8 symbolic bytes + 24 zero bytes); the Reed-Solomon codec is an injective function from the k original chunks to k parity chunks; the real nmt, celestia-app wrapper tree and all repository code run on top of them unmodified
//verif:assume share bytes: 29-byte namespace, then 8 symbolic payload bytes, remaining bytes zero (the code treats payload bytes uniformly)
package shwap

import (
	"errors"
	"hash"

	"github.com/celestiaorg/celestia-app/v9/pkg/appconsts"
	"github.com/celestiaorg/celestia-app/v9/pkg/wrapper"
	libshare "github.com/celestiaorg/go-square/v4/share"
	"github.com/celestiaorg/rsmt2d"

	"github.com/celestiaorg/celestia-node/share"
	nd "github.com/celestiaorg/celestia-node/verifnd"
)

// ---- ideal hash -------------------------------------------------------------

type verifOracleRec struct {
	in  []byte
	out []byte
}

var verifHashRecs []verifOracleRec

func verifOracle(in []byte) []byte {
	for _, r := range verifHashRecs {
		if nd.SameBytes(r.in, in) {
			return r.out
		}
	}
	out := make([]byte, 32)
	copy(out, nd.Bytes(8, "digest"))
	for _, r := range verifHashRecs {
		if len(r.in) == len(in) {
			nd.Axiom(nd.Iff(nd.EqBytes(r.in, in), nd.EqBytes(r.out[:8], out[:8])))
		} else {
			nd.Axiom(!nd.EqBytes(r.out[:8], out[:8]))
		}
	}
	cp := make([]byte, len(in))
	copy(cp, in)
	verifHashRecs = append(verifHashRecs, verifOracleRec{in: cp, out: out})
	return out
}

type verifHash struct{ buf []byte }

func (h *verifHash) Write(p []byte) (int, error) {
	h.buf = append(h.buf, p...)
	return len(p), nil
}
func (h *verifHash) Sum(b []byte) []byte { return append(b, verifOracle(h.buf)...) }
func (h *verifHash) Reset()              { h.buf = nil }
func (h *verifHash) Size() int           { return 32 }
func (h *verifHash) BlockSize() int      { return 64 }

func verifNewHash() hash.Hash { return &verifHash{} }

// ---- ideal Reed-Solomon codec -------------------------------------------------

type verifCodecRec struct {
	in, out [][]byte
}

var verifCodecRecs []verifCodecRec

type verifCodec struct{}

func verifNewCodec() rsmt2d.Codec { return verifCodec{} }

func verifSameChunks(a, b [][]byte) bool {
	if len(a) != len(b) {
		return false
	}
	for i := range a {
		if !nd.SameBytes(a[i], b[i]) {
			return false
		}
	}
	return true
}

func verifEqChunks(a, b [][]byte) bool {
	eq := true
	for i := range a {
		eq = nd.And(eq, nd.EqBytes(a[i][:verifSymEnd], b[i][:verifSymEnd]))
	}
	return eq
}

func (verifCodec) Encode(data [][]byte) ([][]byte, error) {
	for _, r := range verifCodecRecs {
		if verifSameChunks(r.in, data) {
			return r.out, nil
		}
	}
	out := make([][]byte, len(data))
	for i := range out {
		out[i] = make([]byte, len(data[i]))
		// parity bytes are arbitrary; the first 29 are fixed to the parity
		// namespace pattern so that a response share built by the harness
		// (namespace by choice + 8 symbolic bytes) can equal a parity cell
		copy(out[i], libshare.ParitySharesNamespace.Bytes())
		copy(out[i][libshare.NamespaceSize:], nd.Bytes(8, "parity"))
	}
	for _, r := range verifCodecRecs {
		if len(r.in) == len(data) {
			nd.Axiom(nd.Iff(verifEqChunks(r.in, data), verifEqChunks(r.out, out)))
		}
	}
	in := make([][]byte, len(data))
	for i := range data {
		in[i] = append([]byte(nil), data[i]...)
	}
	verifCodecRecs = append(verifCodecRecs, verifCodecRec{in: in, out: out})
	return out, nil
}

// Decode reconstructs all 2k chunks from one present half (the other half is
// empty): the ideal codec is a bijection between originals and parity.
func (c verifCodec) Decode(data [][]byte) ([][]byte, error) {
	k := len(data) / 2
	if k == 0 || len(data)%2 != 0 {
		return nil, errors.New("model codec: bad chunk count")
	}
	leftPresent, rightPresent := true, true
	for i := 0; i < k; i++ {
		if len(data[i]) == 0 {
			leftPresent = false
		}
		if len(data[k+i]) == 0 {
			rightPresent = false
		}
	}
	if leftPresent {
		par, err := c.Encode(data[:k])
		if err != nil {
			return nil, err
		}
		return append(append([][]byte{}, data[:k]...), par...), nil
	}
	if !rightPresent {
		return nil, errors.New("model codec: too few chunks to decode")
	}
	y := data[k:]
	for _, r := range verifCodecRecs {
		if verifSameChunks(r.out, y) {
			return append(append([][]byte{}, r.in...), y...), nil
		}
	}
	x := make([][]byte, k)
	for i := range x {
		x[i] = make([]byte, len(y[i]))
		copy(x[i][libshare.NamespaceSize:], nd.Bytes(8, "decoded"))
		// the namespace of a decoded original is whatever the codec yields
		copy(x[i], nd.Bytes(libshare.NamespaceSize, "decodedNs"))
	}
	for _, r := range verifCodecRecs {
		if len(r.in) == k {
			nd.Axiom(nd.Iff(verifEqChunks(r.out, y), verifEqChunks(r.in, x)))
		}
	}
	yc := make([][]byte, k)
	for i := range y {
		yc[i] = append([]byte(nil), y[i]...)
	}
	verifCodecRecs = append(verifCodecRecs, verifCodecRec{in: x, out: yc})
	return append(append([][]byte{}, x...), y...), nil
}
func (verifCodec) MaxChunks() int                 { return 1 << 16 }
func (verifCodec) Name() string                   { return "verif-ideal" }
func (verifCodec) ValidateChunkSize(size int) error { return nil }

// ---- squares ------------------------------------------------------------------

const verifSymEnd = libshare.NamespaceSize + 8

var verifNS = libshare.MustNewV0Namespace([]byte("verif-ns"))

func verifReset() {
	verifHashRecs = nil
	verifCodecRecs = nil
	appconsts.NewBaseHashFunc = verifNewHash
}

func verifLeoEncode(_ *rsmt2d.LeoRSCodec, data [][]byte) ([][]byte, error) {
	return verifCodec{}.Encode(data)
}

func verifLeoDecode(_ *rsmt2d.LeoRSCodec, data [][]byte) ([][]byte, error) {
	return verifCodec{}.Decode(data)
}

func verifSymShare(ns libshare.Namespace, tag string) libshare.Share {
	raw := make([]byte, libshare.ShareSize)
	copy(raw, ns.Bytes())
	copy(raw[libshare.NamespaceSize:], nd.Bytes(8, tag))
	sh, err := libshare.NewShare(raw)
	nd.Assume(err == nil)
	return sh
}

// exported for harnesses of other packages (store/file: C05)
func VerifModelReset()                                        { verifReset() }
func VerifModelEncode(data [][]byte) ([][]byte, error)        { return verifCodec{}.Encode(data) }
func VerifModelShare(ns libshare.Namespace, tag string) libshare.Share { return verifSymShare(ns, tag) }

// VerifModelSquare builds a committed 2k x 2k EDS over the ideal codec: the
// first `filled` ODS cells (row-major) carry symbolic payload in ns, the rest
// is tail padding; Q2 = parity of the ODS rows, Q3 = parity of the ODS
// columns, Q4 = parity of the Q3 rows. Needs rsmt2d loaded from source.
func VerifModelSquare(k, filled int, ns libshare.Namespace) ([][]libshare.Share, *rsmt2d.ExtendedDataSquare) {
	cells := make([][]libshare.Share, 2*k)
	for r := range cells {
		cells[r] = make([]libshare.Share, 2*k)
	}
	n := 0
	for r := 0; r < k; r++ {
		for c := 0; c < k; c++ {
			if n < filled {
				cells[r][c] = verifSymShare(ns, "ods")
			} else {
				cells[r][c] = libshare.TailPaddingShare()
			}
			n++
		}
	}
	enc := func(in []libshare.Share) []libshare.Share {
		par, err := verifCodec{}.Encode(libshare.ToBytes(in))
		nd.Assume(err == nil)
		out, err := libshare.FromBytes(par)
		nd.Assume(err == nil)
		return out
	}
	for r := 0; r < k; r++ {
		copy(cells[r][k:], enc(cells[r][:k]))
	}
	for c := 0; c < k; c++ {
		col := make([]libshare.Share, k)
		for r := 0; r < k; r++ {
			col[r] = cells[r][c]
		}
		for r, s := range enc(col) {
			cells[k+r][c] = s
		}
	}
	for r := k; r < 2*k; r++ {
		copy(cells[r][k:], enc(cells[r][:k]))
	}
	var flat [][]byte
	for r := range cells {
		flat = append(flat, libshare.ToBytes(cells[r])...)
	}
	share.DefaultRSMT2DCodec = rsmt2d.NewLeoRSCodec
	sq, err := rsmt2d.ImportExtendedDataSquare(flat, share.DefaultRSMT2DCodec(), wrapper.NewConstructor(uint64(k)))
	nd.Assume(err == nil)
	return cells, sq
}

// an honest w x w ODS in one namespace with symbolic contents, and the row
// roots the header commits to
func verifCommit(w int) ([][]libshare.Share, [][]byte) {
	ods := make([][]libshare.Share, w)
	roots := make([][]byte, w)
	for r := 0; r < w; r++ {
		ods[r] = make([]libshare.Share, w)
		for c := 0; c < w; c++ {
			ods[r][c] = verifSymShare(verifNS, "ods")
		}
		ext, err := share.ExtendShares(ods[r])
		nd.Assume(err == nil)
		root, err := buildTreeRootFromLeaves(libshare.ToBytes(ext), uint(r))
		nd.Assume(err == nil)
		roots[r] = root
	}
	return ods, roots
}
