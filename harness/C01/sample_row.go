//verif:overlay share/shwap/zz_verif_c01_sample.go
//verif:bound sample/row verification: honest 4x4 EDS (ODS width 2, one data namespace, symbolic contents, parity quadrants from the ideal codec) committed by row AND column trees through the real wrapper/nmt code; request: every coordinate / every row; response: an ARBITRARY Sample (symbolic share in the data, parity or a third namespace; proof with symbolic start/end, 0..3 arbitrary nodes; any proof type) or an ARBITRARY Row (1..4 symbolic shares, any side value)
package shwap

import (
	"bytes"

	libshare "github.com/celestiaorg/go-square/v4/share"
	"github.com/celestiaorg/nmt"
	"github.com/celestiaorg/rsmt2d"

	"github.com/celestiaorg/celestia-node/share"
	nd "github.com/celestiaorg/celestia-node/verifnd"
)

// honest EDS of ODS width w with row and column roots
func verifCommitEDS(w, needRow, needCol int) ([][]libshare.Share, *share.AxisRoots) {
	share.DefaultRSMT2DCodec = func() *rsmt2d.LeoRSCodec { return &rsmt2d.LeoRSCodec{} }
	n := 2 * w
	eds := make([][]libshare.Share, n)
	for r := range eds {
		eds[r] = make([]libshare.Share, n)
	}
	// Q1 + Q2
	for r := 0; r < w; r++ {
		row := make([]libshare.Share, w)
		for c := range row {
			row[c] = verifSymShare(verifNS, "ods")
		}
		ext, err := share.ExtendShares(row)
		nd.Assume(err == nil)
		copy(eds[r], ext)
	}
	// Q3 (column extension of Q1) and Q4 (row extension of Q3)
	for c := 0; c < w; c++ {
		col := make([]libshare.Share, w)
		for r := range col {
			col[r] = eds[r][c]
		}
		ext, err := share.ExtendShares(col)
		nd.Assume(err == nil)
		for r := w; r < n; r++ {
			eds[r][c] = ext[r]
		}
	}
	for r := w; r < n; r++ {
		ext, err := share.ExtendShares(eds[r][:w])
		nd.Assume(err == nil)
		copy(eds[r][w:], ext[w:])
	}
	roots := &share.AxisRoots{RowRoots: make([][]byte, n), ColumnRoots: make([][]byte, n)}
	for i := 0; i < n; i++ {
		// Only the roots of the requested row and column are computed through
		// the tree code; the others are unconstrained symbolic values (a
		// verifier that consults one of them is thereby exposed).
		if needRow < 0 || needRow == i {
			root, err := buildTreeRootFromLeaves(libshare.ToBytes(eds[i]), uint(i))
			nd.Assume(err == nil)
			roots.RowRoots[i] = root
		} else {
			roots.RowRoots[i] = verifFreeRoot("otherRowRoot")
		}
		if needCol < 0 || needCol == i {
			col := make([]libshare.Share, n)
			for r := range col {
				col[r] = eds[r][i]
			}
			root, err := buildTreeRootFromLeaves(libshare.ToBytes(col), uint(i))
			nd.Assume(err == nil)
			roots.ColumnRoots[i] = root
		} else {
			roots.ColumnRoots[i] = verifFreeRoot("otherColRoot")
		}
	}
	return eds, roots
}

// quick tier: one coordinate per quadrant (the tree code is the same for
// every row/column of a quadrant); thorough: every coordinate
func verifCoord(w int) (int, int) {
	if nd.Thorough() {
		return nd.Choice(2*w, "row"), nd.Choice(2*w, "col")
	}
	switch nd.Choice(4, "quadrant") {
	case 0:
		return 0, 1
	case 1:
		return 1, 2
	case 2:
		return 3, 0
	}
	return 2, 3
}

func verifFreeRoot(tag string) []byte {
	r := make([]byte, 90)
	copy(r, nd.Bytes(2*libshare.NamespaceSize+8, tag))
	return r
}

func verifArbNs(tag string) libshare.Namespace {
	switch nd.Choice(3, tag) {
	case 0:
		return verifNS
	case 1:
		return libshare.ParitySharesNamespace
	}
	return libshare.MustNewV0Namespace([]byte("other-ns"))
}

func verifArbProofN(tag string, maxNodes int) *nmt.Proof {
	if nd.Choice(2, tag+".present") == 0 {
		return nil
	}
	start, end := nd.Int(tag+".start"), nd.Int(tag+".end")
	nd.Assume(start >= 0 && start <= 5 && end >= 0 && end <= 5)
	n := nd.Choice(maxNodes+1, tag+".nodes")
	nodes := make([][]byte, n)
	for i := range nodes {
		node := make([]byte, 90)
		copy(node, nd.Bytes(2*libshare.NamespaceSize+8, tag+".node"))
		nodes[i] = node
	}
	p := nmt.NewInclusionProof(start, end, nodes, true)
	return &p
}

// A sample that verifies for (row, col) carries exactly the committed share
// of that cell, whichever axis its proof is against.
//
//verif:opts nopanic noreplay maxwall=1700 cover=accepted,rejected,rowproof,colproof,parity,data
func VerifH_C01_SampleSound() {
	verifReset()
	const w = 2
	row, col := verifCoord(w)
	eds, roots := verifCommitEDS(w, row, col)
	s := Sample{
		Share:     verifSymShare(verifArbNs("ns"), "resp"),
		Proof:     verifArbProofN("proof", 3),
		ProofType: rsmt2d.Axis(nd.Int("axis")), // any value of the wire's int32 enum and beyond
	}
	if err := s.Verify(roots, row, col); err != nil {
		nd.Cover("rejected")
		return
	}
	nd.Cover("accepted")
	if s.ProofType == rsmt2d.Row {
		nd.Cover("rowproof")
	} else {
		nd.Cover("colproof")
	}
	if row >= w || col >= w {
		nd.Cover("parity")
	} else {
		nd.Cover("data")
	}
	nd.Assert(bytes.Equal(s.Share.ToBytes(), eds[row][col].ToBytes()), "sample-is-the-committed-share-of-that-cell")
}

// The sample the serving side builds for a cell verifies, on both axes.
//
//verif:opts nopanic noreplay cover=served
func VerifH_C01_SampleHonestAccepted() {
	verifReset()
	const w = 2
	row, col := nd.Choice(2*w, "row"), nd.Choice(2*w, "col")
	eds, roots := verifCommitEDS(w, row, col)
	var s Sample
	var err error
	if nd.Choice(2, "axis") == 0 {
		s, err = SampleFromShares(eds[row], rsmt2d.Row, SampleCoords{Row: row, Col: col})
	} else {
		colShares := make([]libshare.Share, 2*w)
		for r := range colShares {
			colShares[r] = eds[r][col]
		}
		s, err = SampleFromShares(colShares, rsmt2d.Col, SampleCoords{Row: col, Col: row})
	}
	nd.Assert(err == nil, "honest-sample-is-built")
	nd.Cover("served")
	nd.Assert(s.Verify(roots, row, col) == nil, "honest-sample-verifies")
}

// A row response that verifies for row idx yields exactly the committed row.
//
//verif:opts nopanic noreplay maxwall=1700 cover=accepted,rejected
func VerifH_C01_RowSound() {
	verifReset()
	const w = 2
	idx := nd.Choice(2*w, "row")
	eds, roots := verifCommitEDS(w, idx, 0)
	n := 1 + nd.Choice(2*w, "len")
	shares := make([]libshare.Share, n)
	for i := range shares {
		shares[i] = verifSymShare(verifArbNs("ns"), "resp")
	}
	r := NewRow(shares, RowSide(nd.Int("side"))) // any value of the wire enum and beyond
	if err := r.Verify(roots, idx); err != nil {
		nd.Cover("rejected")
		return
	}
	nd.Cover("accepted")
	got, err := r.Shares()
	nd.Assert(err == nil && len(got) == 2*w, "whole-row")
	for c := range got {
		if c < 2*w {
			nd.Assert(bytes.Equal(got[c].ToBytes()[:verifSymEnd], eds[idx][c].ToBytes()[:verifSymEnd]), "row-is-the-committed-row")
		}
	}
}
