//verif:overlay blob/zz_verif_c20.go
//verif:pkgs ./header github.com/celestiaorg/go-square/v4/share
//verif:replace (*github.com/celestiaorg/celestia-node/blob.Service).getAll github.com/celestiaorg/celestia-node/blob.verifGetAll
//verif:bound blob subscription goroutine: header feed of up to 3 headers with increasing heights (then optionally closed), retrieval failing 0..2 times per header before succeeding (or for ever in the shutdown harness), consumer reading at an arbitrary pace, user cancel / service stop at an arbitrary point; every schedule with at most 1 (quick) / 2 (thorough) scheduling deviations; overflow branch reached with a pre-filled 16-slot buffer
//verif:assume retrieval (getAll) is a model: returns the blobs "of that header" (one ghost blob whose index is the height) or an error; it is a scheduling point (takes time)
//verif:outside unbounded streams; that the retrieved blobs are the right ones (C11)
package blob

import (
	"context"
	"errors"

	libshare "github.com/celestiaorg/go-square/v4/share"

	"github.com/celestiaorg/celestia-node/header"
	nd "github.com/celestiaorg/celestia-node/verifnd"
)

type verifEnv struct {
	failsLeft    map[uint64]int
	failForever  bool
	neverFail    bool
	stopped      bool
	callsStopped int
	calls        int
}

var verifE *verifEnv

func verifGetAll(s *Service, ctx context.Context, h *header.ExtendedHeader, nss []libshare.Namespace) ([]*Blob, error) {
	e := verifE
	e.calls++
	nd.Yield() // retrieval takes time: others may run (cancel, stop, feed, consumer)
	if e.stopped {
		e.callsStopped++
		// one retrieval may already be under way and one more header may be
		// picked by the select before the stop is seen; more is not prompt
		nd.Assert(e.callsStopped <= 2, "stops-retrying-promptly-after-service-stop-or-cancel")
	}
	if e.failForever {
		return nil, errors.New("retrieval failed")
	}
	left, ok := e.failsLeft[h.Height()]
	if !ok && !e.neverFail {
		left = nd.Choice(3, "fails")
	}
	if left > 0 {
		e.failsLeft[h.Height()] = left - 1
		return nil, errors.New("retrieval failed")
	}
	e.failsLeft[h.Height()] = 0
	return []*Blob{{index: int(h.Height())}}, nil
}

func verifHdr(h uint64) *header.ExtendedHeader {
	eh := &header.ExtendedHeader{}
	eh.RawHeader.Height = int64(h)
	return eh
}

func verifSubscribe(feed chan *header.ExtendedHeader) (*Service, <-chan *SubscriptionResponse, context.CancelFunc, context.CancelFunc) {
	verifE = &verifEnv{failsLeft: map[uint64]int{}}
	userCtx, userCancel := context.WithCancel(context.Background())
	s := &Service{
		headerSub: func(ctx context.Context) (<-chan *header.ExtendedHeader, error) { return feed, nil }}
	// the service goes through its real life-cycle hooks; the context handed
	// to Start covers the start-up phase only (fx cancels it when the hook
	// returns), the service must live on until Stop
	startCtx, startDone := context.WithCancel(context.Background())
	nd.Assert(s.Start(startCtx) == nil, "service-starts")
	startDone()
	svcCancel := func() { _ = s.Stop(context.Background()) }
	ns := libshare.MustNewV0Namespace([]byte("verif"))
	ch, err := s.Subscribe(userCtx, ns)
	nd.Assert(err == nil && ch != nil, "subscribed")
	return s, ch, userCancel, svcCancel
}

// Every header fed is answered exactly once, in order, with the blobs of
// that height, retrieval failures are retried instead of skipped, and the
// stream stays open while nobody cancels, stops, closes the feed or stalls.
//
//verif:opts nodeadlock noreplay preempt=1 preempt_thorough=2 threads=8 cover=delivered
func VerifH_C20_InOrderExactlyOnce() {
	feed := make(chan *header.ExtendedHeader, 1)
	_, ch, userCancel, svcCancel := verifSubscribe(feed)
	defer userCancel()
	defer svcCancel()
	n := 2
	if nd.Thorough() {
		n = 3
	}
	base := nd.U64("base")
	nd.Assume(base >= 1 && base < 1<<40)
	go func() {
		for i := 0; i < n; i++ {
			feed <- verifHdr(base + uint64(i))
		}
	}()
	for i := 0; i < n; i++ {
		resp, ok := <-ch
		nd.Assert(ok, "stream-stays-open-without-a-reason-to-end")
		nd.Assert(resp.Height == base+uint64(i), "one-response-per-header-in-order")
		nd.Assert(resp.Header != nil && uint64(resp.Header.Height) == resp.Height, "header-of-that-height")
		nd.Assert(len(resp.Blobs) == 1 && resp.Blobs[0].index == int(resp.Height), "blobs-of-that-height")
	}
	nd.Cover("delivered")
	nd.RunOthers()
	select {
	case _, ok := <-ch:
		nd.Assert(ok, "stream-stays-open-without-a-reason-to-end")
		nd.Assert(false, "no-duplicate-or-extra-response")
	default:
	}
}

// The stream ends promptly on user cancel, service stop or feed close - even
// while a retrieval keeps failing - and never delivers a gap. "Promptly" is a
// bounded-termination claim: a path on which the subscription goroutine is still
// running after 200000 SSA instructions (the longest path on a conforming tree
// takes a few thousand) is a violation (nolivelock), e.g. a loop spinning on the
// closed feed.
//
//verif:opts nodeadlock nolivelock maxsteps=200000 noreplay preempt=1 preempt_thorough=2 threads=8 cover=cancel,stop,feedclosed
func VerifH_C20_EndsPromptly() {
	feed := make(chan *header.ExtendedHeader, 1)
	_, ch, userCancel, svcCancel := verifSubscribe(feed)
	defer userCancel()
	defer svcCancel()
	verifE.failForever = nd.Choice(2, "failForever") == 1
	base := uint64(7)
	go func() {
		feed <- verifHdr(base)
		feed <- verifHdr(base + 1)
	}()
	nd.Yield()
	how := nd.Choice(3, "how")
	switch how {
	case 0:
		nd.Cover("cancel")
		verifE.stopped = true
		userCancel()
	case 1:
		nd.Cover("stop")
		verifE.stopped = true
		svcCancel()
	case 2:
		if verifE.failForever {
			nd.End() // a feed close is only observed between retrievals
		}
		nd.Cover("feedclosed")
		nd.RunOthers()
		close(feed)
	}
	nd.RunOthers()
	// drain: whatever was delivered is a gap-free prefix, then the stream is closed
	next := base
	for {
		select {
		case resp, ok := <-ch:
			if !ok {
				return
			}
			nd.Assert(resp.Height == next, "gap-free-prefix-before-the-end")
			next++
			continue
		default:
		}
		nd.Assert(false, "stream-closed-promptly-after-cancel-stop-or-feed-close")
		return
	}
}

// A subscriber that falls a full buffer (16 responses) behind is cut off.
//
//verif:opts nodeadlock noreplay preempt=0 threads=8 cover=overflow
func VerifH_C20_Overflow() {
	feed := make(chan *header.ExtendedHeader, 1)
	_, ch, userCancel, svcCancel := verifSubscribe(feed)
	defer userCancel()
	defer svcCancel()
	verifE.neverFail = true
	go func() {
		for i := 0; i < 17; i++ {
			feed <- verifHdr(uint64(100 + i))
		}
	}()
	nd.RunOthers()
	nd.Cover("overflow")
	n := 0
	for resp := range ch {
		nd.Assert(resp.Height == uint64(100+n), "in-order-up-to-the-cut")
		n++
	}
	nd.Assert(n == 16, "cut-off-exactly-when-a-full-buffer-behind")
}
