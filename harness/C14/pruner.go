//verif:overlay pruner/zz_verif_c14.go
//verif:pkgs ./header
//verif:replace (*github.com/celestiaorg/celestia-node/pruner.Service).withWriteBatch github.com/celestiaorg/celestia-node/pruner.verifNoBatch
//verif:replace (*github.com/celestiaorg/celestia-node/pruner.Service).withReadTransaction github.com/celestiaorg/celestia-node/pruner.verifNoTxn
//verif:replace github.com/celestiaorg/celestia-node/pruner.storeCheckpoint github.com/celestiaorg/celestia-node/pruner.verifStoreCheckpoint
//verif:noop github.com/celestiaorg/celestia-app/v9/pkg/da
//verif:bound pruner: header chain of 2..5 blocks with arbitrary non-decreasing symbolic timestamps (so real block time is below, equal to or above the configured estimate), arbitrary window, head anywhere in the chain, last-pruned height anywhere at or below head; configured block time 2^30 ns (a power of two: division by a general constant is outside what the back ends decide at 64 bits); maxHeadersPerLoop set to 2 so that full batches and the multi-batch loop are exercised; per-call prune outcome symbolic; one recorded failure at any height up to the checkpoint with the header store's tail anywhere in the chain (VerifH_C14_RecordedFailuresSurviveATailAdvance)
//verif:assume header store is an honest in-memory chain; datastore batching/transactions are no-ops and storing the checkpoint keeps a deep copy (JSON round trip = identity) and may fail symbolically
//verif:outside fx wiring, the real datastore, unbounded liveness under a pruner that fails for ever
package pruner

import (
	"context"
	"errors"
	"time"

	libhead "github.com/celestiaorg/go-header"

	"github.com/celestiaorg/celestia-app/v9/pkg/da"

	"github.com/celestiaorg/celestia-node/header"
	nd "github.com/celestiaorg/celestia-node/verifnd"
)

const verifBlockTime = time.Duration(1 << 30)

func verifNoBatch(s *Service, ctx context.Context) (context.Context, func() error) {
	return ctx, func() error { return nil }
}

func verifNoTxn(s *Service, ctx context.Context) (context.Context, func()) {
	return ctx, func() {}
}

var verifStored *checkpoint
var verifStoreFails bool

func verifStoreCheckpoint(ctx context.Context, ds any, c *checkpoint) error {
	if verifStoreFails && nd.Bool("storeFails") {
		return errors.New("datastore: put failed")
	}
	cp := &checkpoint{LastPrunedHeight: c.LastPrunedHeight, FailedHeaders: map[uint64]struct{}{}}
	for h := range c.FailedHeaders {
		cp.FailedHeaders[h] = struct{}{}
	}
	verifStored = cp
	return nil
}

// honest chain: heights 1..n, head may be below n
type verifChain struct {
	libhead.Store[*header.ExtendedHeader]
	hdrs []*header.ExtendedHeader // index = height-1
	head uint64
	tail uint64
}

var verifChainLens = 4 // chains of 2..2+verifChainLens-1 headers

func verifNewChain() *verifChain {
	n := 2 + nd.Choice(verifChainLens, "chainlen")
	c := &verifChain{}
	var prev int64
	for i := 0; i < n; i++ {
		ns := nd.I64("time")
		nd.Assume(ns >= prev && ns >= 1 && ns < 1<<59)
		prev = ns
		eh := &header.ExtendedHeader{DAH: &da.DataAvailabilityHeader{}}
		eh.RawHeader.Height = int64(i + 1)
		eh.RawHeader.Time = time.Unix(0, ns)
		c.hdrs = append(c.hdrs, eh)
	}
	c.head = uint64(1 + nd.Choice(n, "head"))
	c.tail = 1
	return c
}

func (c *verifChain) Head(context.Context, ...libhead.HeadOption[*header.ExtendedHeader]) (*header.ExtendedHeader, error) {
	return c.hdrs[c.head-1], nil
}

func (c *verifChain) Tail(context.Context) (*header.ExtendedHeader, error) {
	return c.hdrs[c.tail-1], nil
}

func (c *verifChain) GetByHeight(_ context.Context, h uint64) (*header.ExtendedHeader, error) {
	if h < c.tail || h > c.head {
		return nil, errors.New("header: not found")
	}
	return c.hdrs[h-1], nil
}

func (c *verifChain) GetRangeByHeight(_ context.Context, from *header.ExtendedHeader, to uint64) ([]*header.ExtendedHeader, error) {
	var out []*header.ExtendedHeader
	for h := from.Height() + 1; h < to; h++ {
		if h > c.head {
			return nil, errors.New("header: not found")
		}
		out = append(out, c.hdrs[h-1])
	}
	return out, nil
}

func (c *verifChain) OnDelete(func(context.Context, uint64) error) {}

func verifNs(eh *header.ExtendedHeader) int64 { return eh.Time().UnixNano() }

// findPruneableHeaders never returns a header inside the window, returns a
// gap-free run starting right after the last pruned height, and when the run
// is not a full batch it leaves out no header that is older than the window
// by more than one configured block time.
//
//verif:opts nopanic cover=some,none,fullbatch
func VerifH_C14_Find() {
	maxHeadersPerLoop = 2
	c := verifNewChain()
	window := time.Duration(nd.I64("window"))
	nd.Assume(window >= 1 && window < 1<<59) // a positive availability window
	s := &Service{hstore: c, window: window, blockTime: verifBlockTime}
	last := uint64(1 + nd.Choice(int(c.head), "lastPruned"))
	hs, err := s.findPruneableHeaders(context.Background(), c.hdrs[last-1])
	nd.Assert(err == nil, "honest-store-no-error")
	cutoff := verifNs(c.hdrs[c.head-1]) - int64(window)
	first := last + 1
	if last == 1 {
		first = 1
	}
	for i, h := range hs {
		nd.Assert(verifNs(h) <= cutoff, "never-a-header-inside-the-window")
		nd.Assert(h.Height() == first+uint64(i), "gap-free-run-after-last-pruned")
	}
	nd.Assert(len(hs) <= maxHeadersPerLoop+1, "batch-bounded")
	if len(hs) == 0 {
		nd.Cover("none")
	} else {
		nd.Cover("some")
	}
	if len(hs) >= maxHeadersPerLoop {
		nd.Cover("fullbatch")
		return
	}
	next := first + uint64(len(hs))
	if next <= c.head {
		nd.Assert(!(verifNs(c.hdrs[next-1]) < cutoff-int64(verifBlockTime)), "no-header-older-than-window-plus-block-time-left-out")
	}
}

type verifPruner struct {
	c      *verifChain
	cutoff int64
	calls  int
	pruned map[uint64]bool
	seen   map[uint64]bool
}

func (p *verifPruner) Prune(_ context.Context, eh *header.ExtendedHeader) error {
	p.calls++
	nd.Assert(verifNs(eh) <= p.cutoff, "never-prunes-a-header-inside-the-window")
	// bounded-cycles lemma: a cycle handles every header at most twice (retry
	// of a recorded failure + its batch); more means it is not terminating
	nd.Assert(p.calls <= 4*len(p.c.hdrs), "prune-cycle-terminates")
	p.seen[eh.Height()] = true
	if nd.Bool("pruneFails") {
		return errors.New("prune failed")
	}
	p.pruned[eh.Height()] = true
	return nil
}

// One pruning cycle from an arbitrary checkpoint: terminates, never prunes
// inside the window, never moves the checkpoint backwards, and afterwards
// every header after the starting point that is older than the window by more
// than one block time is pruned or recorded as failed.
//
//verif:opts nopanic cover=pruned,failed,multibatch
func VerifH_C14_Cycle() {
	maxHeadersPerLoop = 2
	c := verifNewChain()
	window := time.Duration(nd.I64("window"))
	nd.Assume(window >= 1 && window < 1<<59) // a positive availability window
	cutoff := verifNs(c.hdrs[c.head-1]) - int64(window)
	p := &verifPruner{c: c, cutoff: cutoff, pruned: map[uint64]bool{}, seen: map[uint64]bool{}}
	last := uint64(1 + nd.Choice(int(c.head), "lastPruned"))
	s := &Service{pruner: p, hstore: c, window: window, blockTime: verifBlockTime, checkpoint: newCheckpoint(last)}
	s.ctx = context.Background()
	verifStored = nil
	verifStoreFails = false
	s.prune(context.Background())
	nd.Assert(s.checkpoint.LastPrunedHeight >= last, "checkpoint-never-moves-backwards")
	nd.Assert(s.checkpoint.LastPrunedHeight <= c.head, "checkpoint-within-chain")
	if verifStored != nil {
		nd.Assert(verifStored.LastPrunedHeight == s.checkpoint.LastPrunedHeight, "persisted-checkpoint-is-current")
	}
	if p.calls > 2 {
		nd.Cover("multibatch")
	}
	for h := last + 1; h <= c.head; h++ {
		_, failed := s.checkpoint.FailedHeaders[h]
		if p.pruned[h] {
			nd.Cover("pruned")
		}
		if failed {
			nd.Cover("failed")
			nd.Assert(p.seen[h] && h <= c.head, "only-attempted-heights-are-recorded-failed")
		}
		if verifNs(c.hdrs[h-1]) < cutoff-int64(verifBlockTime) {
			nd.Assert(p.pruned[h] || failed, "old-header-pruned-or-recorded-failed")
		}
	}
}

// A cycle that starts with a recorded failure while the header store's tail
// has advanced (the syncer deleted old headers): a failed height whose header
// still exists - the tail itself included - is pruned by the retry or stays
// recorded as failed; it is never silently forgotten. Only failures whose
// headers are gone may be dropped.
//
//verif:opts nopanic cover=retried-ok,still-failed,at-tail,below-tail-dropped
func VerifH_C14_RecordedFailuresSurviveATailAdvance() {
	maxHeadersPerLoop = 2
	if !nd.Thorough() {
		verifChainLens = 3 // quick tier: chains of 2..4 headers here
	}
	c := verifNewChain()
	verifChainLens = 4
	window := time.Duration(nd.I64("window"))
	nd.Assume(window >= 1 && window < 1<<59)
	cutoff := verifNs(c.hdrs[c.head-1]) - int64(window)
	p := &verifPruner{c: c, cutoff: cutoff, pruned: map[uint64]bool{}, seen: map[uint64]bool{}}
	last := uint64(1 + nd.Choice(int(c.head), "lastPruned"))
	c.tail = uint64(1 + nd.Choice(int(c.head), "tail"))
	f := uint64(1 + nd.Choice(int(last), "failedHeight")) // a height that failed in an earlier cycle
	nd.Assume(verifNs(c.hdrs[f-1]) <= cutoff)             // it was outside the window when it was attempted
	s := &Service{pruner: p, hstore: c, window: window, blockTime: verifBlockTime, checkpoint: newCheckpoint(last)}
	s.checkpoint.FailedHeaders[f] = struct{}{}
	s.ctx = context.Background()
	verifStored, verifStoreFails = nil, false
	s.prune(context.Background())
	_, still := s.checkpoint.FailedHeaders[f]
	if f >= c.tail {
		nd.Assert(p.pruned[f] || still, "a-recorded-failure-is-retried-or-stays-recorded")
		if f == c.tail {
			nd.Cover("at-tail")
		}
		if p.pruned[f] {
			nd.Cover("retried-ok")
		} else {
			nd.Cover("still-failed")
		}
	} else if !still {
		nd.Cover("below-tail-dropped")
	}
	nd.Assert(s.checkpoint.LastPrunedHeight >= last, "checkpoint-never-moves-backwards")
}

// ---- on-delete pruning racing a cycle --------------------------------------------

type verifQuietPruner struct{ calls int }

func (p *verifQuietPruner) Prune(context.Context, *header.ExtendedHeader) error {
	p.calls++
	return nil
}

// The syncer deletes a header (which prunes that height's data through the
// service) while a pruning cycle runs: whatever the interleaving, the
// last-pruned checkpoint ends at least where the cycle put it - it never moves
// backwards.
//
//verif:opts nopanic nodeadlock noreplay preempt=2 threads=6 cover=raced,cycle-advanced
func VerifH_C14_OnDeleteRacingACycleKeepsTheCheckpointMonotone() {
	maxHeadersPerLoop = 2
	// a fixed chain of 5 old headers (one block time apart) and a recent head
	c := &verifChain{head: 6, tail: 1}
	for i := 0; i < 6; i++ {
		eh := &header.ExtendedHeader{DAH: &da.DataAvailabilityHeader{}}
		eh.RawHeader.Height = int64(i + 1)
		eh.RawHeader.Time = time.Unix(0, int64(1+i)*int64(verifBlockTime))
		c.hdrs = append(c.hdrs, eh)
	}
	c.hdrs[5].RawHeader.Time = time.Unix(0, 1<<50)
	s := &Service{pruner: &verifQuietPruner{}, hstore: c, window: time.Duration(1 << 40), blockTime: verifBlockTime, checkpoint: newCheckpoint(1)}
	s.ctx = context.Background()
	verifStored, verifStoreFails = nil, false

	h := uint64(2 + nd.Choice(2, "deletedHeight")) // the syncer deletes height 2 or 3
	done := make(chan struct{}, 2)
	var afterCycle uint64
	go func() {
		s.prune(context.Background())
		s.checkpointMu.Lock()
		afterCycle = s.checkpoint.LastPrunedHeight
		s.checkpointMu.Unlock()
		done <- struct{}{}
	}()
	go func() {
		nd.Assert(s.pruneOnHeaderDelete(context.Background(), h) == nil, "on-delete-pruning-succeeds")
		done <- struct{}{}
	}()
	<-done
	<-done
	nd.Cover("raced")
	if afterCycle > h {
		nd.Cover("cycle-advanced")
	}
	nd.Assert(s.checkpoint.LastPrunedHeight >= afterCycle, "checkpoint-never-moves-backwards")
	nd.Assert(s.checkpoint.LastPrunedHeight >= 1 && s.checkpoint.LastPrunedHeight <= c.head, "checkpoint-within-chain")
}
