//verif:overlay share/shwap/p2p/shrex/zz_verif_c09.go
//verif:pkgs ./share/shwap ./share/eds ./share ./libs/utils ./store github.com/celestiaorg/go-square/v4/share github.com/celestiaorg/nmt golang.org/x/sync/errgroup
//verif:replace github.com/celestiaorg/go-libp2p-messenger/serde.Write github.com/celestiaorg/celestia-node/share/shwap/p2p/shrex.verifSerdeWrite
//verif:replace context.WithTimeout github.com/celestiaorg/celestia-node/share/shwap/p2p/shrex.verifWithTimeout
//verif:noop github.com/celestiaorg/celestia-app/v9/pkg/da
//verif:bound shrex server: the real stream handler for each of the five request types on an ARBITRARY request byte string of length size-1, size or size+1 (symbolic bytes); stored square width 2, 4 or 8 (EDS) or block not held or store error; memory reservation and every stream write may fail (symbolic); no rate limiter
//verif:assume libp2p stream, resource scope, block store and the inner accessor are models that record what the handler does; the response containers' protobuf encoding (serde.Write) is replaced by a model that records the status written; the inner accessor returns placeholder containers (what it returns for in-bounds coordinates is C05)
//verif:outside libp2p resource manager, rate limiter timing, real streams; equality of the served data with the requested data (C01 completeness + C05)
package shrex

import (
	"bytes"
	"context"
	"errors"
	"io"
	"time"

	"github.com/gogo/protobuf/proto"
	"github.com/libp2p/go-libp2p/core/network"
	"github.com/libp2p/go-libp2p/core/peer"

	libshare "github.com/celestiaorg/go-square/v4/share"
	"github.com/celestiaorg/nmt"
	"github.com/celestiaorg/rsmt2d"

	"github.com/celestiaorg/celestia-node/share"
	"github.com/celestiaorg/celestia-node/share/eds"
	"github.com/celestiaorg/celestia-node/share/shwap"
	shrexpb "github.com/celestiaorg/celestia-node/share/shwap/p2p/shrex/pb"
	"github.com/celestiaorg/celestia-node/store"
	nd "github.com/celestiaorg/celestia-node/verifnd"
)

func verifWithTimeout(ctx context.Context, d time.Duration) (context.Context, context.CancelFunc) {
	return context.WithCancel(ctx)
}

// ---- model stream ----------------------------------------------------------

type verifScope struct {
	network.StreamScope
	reserved   []int
	released   []int
	reserveErr bool
}

func (s *verifScope) SetService(string) error { return nil }
func (s *verifScope) ReserveMemory(size int, prio uint8) error {
	if s.reserveErr {
		return errors.New("resource limit exceeded")
	}
	s.reserved = append(s.reserved, size)
	return nil
}
func (s *verifScope) ReleaseMemory(size int) { s.released = append(s.released, size) }

type verifConn struct{ network.Conn }

func (verifConn) RemotePeer() peer.ID { return "peer" }

type verifStream struct {
	network.Stream
	in        []byte
	pos       int
	scope     *verifScope
	statuses  []shrexpb.Status
	closed    int
	resets    int
	writeFail bool
	written   int

	readDeadline, writeDeadline bool
}

func (s *verifStream) Read(p []byte) (int, error) {
	// a peer may stall instead of closing: every read of the request must be
	// bounded by a deadline, or the handler (and its resource slot) is wedged
	nd.Assert(s.readDeadline, "request-is-read-under-a-deadline")
	if s.pos >= len(s.in) {
		return 0, io.EOF
	}
	n := copy(p, s.in[s.pos:])
	s.pos += n
	return n, nil
}
func (s *verifStream) Write(p []byte) (int, error) {
	nd.Assert(s.writeDeadline, "response-is-written-under-a-deadline")
	if s.writeFail {
		return 0, errors.New("stream write failed")
	}
	s.written += len(p)
	return len(p), nil
}
func (s *verifStream) Close() error                     { s.closed++; return nil }
func (s *verifStream) CloseRead() error                 { return nil }
func (s *verifStream) CloseWrite() error                { return nil }
func (s *verifStream) Reset() error                     { s.resets++; return nil }
func (s *verifStream) ResetWithError(network.StreamErrorCode) error { s.resets++; return nil }
func (s *verifStream) SetDeadline(t time.Time) error {
	s.readDeadline, s.writeDeadline = !t.IsZero(), !t.IsZero()
	return nil
}
func (s *verifStream) SetReadDeadline(t time.Time) error  { s.readDeadline = !t.IsZero(); return nil }
func (s *verifStream) SetWriteDeadline(t time.Time) error { s.writeDeadline = !t.IsZero(); return nil }
func (s *verifStream) Scope() network.StreamScope       { return s.scope }
func (s *verifStream) Conn() network.Conn               { return verifConn{} }

var verifCurStream *verifStream

// serde.Write model: the status message is recorded, container messages are
// counted; any write may fail.
func verifSerdeWrite(w io.Writer, msg proto.Message) (int, error) {
	if resp, ok := msg.(*shrexpb.Response); ok {
		cur := verifCurStream
		if vs, ok := w.(*verifStream); ok {
			cur = vs
		}
		if cur.writeFail {
			return 0, errors.New("stream write failed")
		}
		cur.statuses = append(cur.statuses, resp.Status)
		return 2, nil
	}
	return w.Write([]byte{1, 2, 3})
}

// ---- model store and accessor ------------------------------------------------

type verifAcc struct {
	width  int // EDS width
	closed int
	calls  []string
	args   [][3]int
	ns     libshare.Namespace
}

func (a *verifAcc) note(name string, x, y, z int) {
	a.calls = append(a.calls, name)
	a.args = append(a.args, [3]int{x, y, z})
}
func (a *verifAcc) Size(context.Context) (int, error) { return a.width, nil }
func (a *verifAcc) DataHash(context.Context) (share.DataHash, error) {
	return make([]byte, 32), nil
}
func (a *verifAcc) AxisRoots(context.Context) (*share.AxisRoots, error) {
	a.note("AxisRoots", 0, 0, 0)
	roots := &share.AxisRoots{RowRoots: make([][]byte, a.width), ColumnRoots: make([][]byte, a.width)}
	for i := range roots.RowRoots {
		roots.RowRoots[i] = make([]byte, 90)
		roots.ColumnRoots[i] = make([]byte, 90)
	}
	return roots, nil
}
func (a *verifAcc) Sample(_ context.Context, idx shwap.SampleCoords) (shwap.Sample, error) {
	a.note("Sample", idx.Row, idx.Col, 0)
	nd.Assert(idx.Row >= 0 && idx.Row < a.width && idx.Col >= 0 && idx.Col < a.width, "inner-accessor-only-sees-in-bounds-coordinates")
	p := nmt.NewInclusionProof(idx.Col, idx.Col+1, nil, true)
	return shwap.Sample{Share: verifShare(), Proof: &p}, nil
}
func (a *verifAcc) AxisHalf(_ context.Context, axis rsmt2d.Axis, i int) (shwap.AxisHalf, error) {
	a.note("AxisHalf", int(axis), i, 0)
	nd.Assert(i >= 0 && i < a.width, "inner-accessor-only-sees-in-bounds-coordinates")
	sh := make([]libshare.Share, a.width/2)
	for k := range sh {
		sh[k] = verifShare()
	}
	return shwap.AxisHalf{Shares: sh, IsParity: false}, nil
}
func (a *verifAcc) RowNamespaceData(_ context.Context, ns libshare.Namespace, row int) (shwap.RowNamespaceData, error) {
	a.note("RowNamespaceData", row, 0, 0)
	nd.Assert(row >= 0 && row < a.width, "inner-accessor-only-sees-in-bounds-coordinates")
	a.ns = ns
	p := nmt.NewInclusionProof(0, 1, nil, true)
	return shwap.RowNamespaceData{Shares: []libshare.Share{verifShare()}, Proof: &p}, nil
}
func (a *verifAcc) RangeNamespaceData(_ context.Context, from, to int) (shwap.RangeNamespaceData, error) {
	a.note("RangeNamespaceData", from, to, 0)
	ods := a.width / 2
	nd.Assert(from >= 0 && from < to && to <= ods*ods, "inner-accessor-only-sees-in-bounds-coordinates")
	return shwap.RangeNamespaceData{Shares: [][]libshare.Share{{verifShare()}}}, nil
}
func (a *verifAcc) Shares(context.Context) ([]libshare.Share, error) { return nil, nil }
func (a *verifAcc) Reader() (io.Reader, error) {
	a.note("Reader", 0, 0, 0)
	return bytes.NewReader([]byte{9, 9}), nil
}
func (a *verifAcc) Close() error { a.closed++; return nil }

func verifShare() libshare.Share {
	raw := make([]byte, libshare.ShareSize)
	copy(raw, libshare.MustNewV0Namespace([]byte("srv")).Bytes())
	sh, _ := libshare.NewShare(raw)
	return sh
}

type verifStore struct {
	outcome int // 0 found, 1 not found, 2 other error
	acc     *verifAcc
	asked   []uint64
}

func (s *verifStore) GetByHeight(_ context.Context, h uint64) (eds.AccessorStreamer, error) {
	s.asked = append(s.asked, h)
	switch s.outcome {
	case 1:
		return nil, store.ErrNotFound
	case 2:
		return nil, errors.New("store: disk error")
	}
	// the real store hands out accessors wrapped by the bounds validation
	inner := eds.WithValidation(s.acc)
	return eds.AccessorAndStreamer(inner, s.acc), nil
}
func (s *verifStore) HasByHeight(context.Context, uint64) (bool, error) { return s.outcome == 0, nil }

// ---- the harness -----------------------------------------------------------------

func verifServe(reqIdx, size int) {
	acc := &verifAcc{width: 2 << nd.Choice(3, "edsWidthLog")}
	st := &verifStore{outcome: nd.Choice(3, "store"), acc: acc}
	srv := &Server{store: st, params: DefaultServerParameters()}
	n := size - 1 + nd.Choice(3, "len")
	stream := &verifStream{in: nd.Bytes(n, "req"), scope: &verifScope{reserveErr: nd.Bool("reserveFails")}, writeFail: nd.Bool("writeFails")}
	verifCurStream = stream
	srv.streamHandler(context.Background(), registry[reqIdx])(stream)

	// resources
	if len(st.asked) > 0 && st.outcome == 0 {
		nd.Assert(acc.closed == 1, "accessor-closed-exactly-once")
	} else {
		nd.Assert(acc.closed == 0, "no-accessor-no-close")
	}
	sc := stream.scope
	nd.Assert(len(sc.released) == len(sc.reserved), "memory-released-iff-reserved")
	for i := range sc.reserved {
		nd.Assert(sc.reserved[i] >= 0, "reservation-not-negative")
		if i < len(sc.released) {
			nd.Assert(sc.released[i] == sc.reserved[i], "same-amount-released")
		}
	}
	nd.Assert(stream.closed+stream.resets >= 1 || sc.reserveErr, "stream-closed-or-reset")
	// status
	nd.Assert(len(stream.statuses) <= 1, "at-most-one-status")
	// The id is a fixed-size prefix of the stream: a truncated request is
	// malformed; bytes after the id are never read (the read side is closed),
	// so a longer request is the request made of its first `size` bytes.
	wellFormed := n >= size
	if !wellFormed {
		nd.Cover("malformed")
		nd.Assert(len(st.asked) == 0 && len(stream.statuses) == 0 && stream.resets >= 1, "malformed-request-is-reset-without-touching-the-store")
		return
	}
	if len(st.asked) == 0 {
		nd.Cover("invalid")
		nd.Assert(len(stream.statuses) == 0 && stream.resets >= 1, "invalid-request-is-reset")
		return
	}
	if stream.writeFail {
		return
	}
	switch st.outcome {
	case 1:
		nd.Cover("notfound")
		nd.Assert(len(stream.statuses) == 1 && stream.statuses[0] == shrexpb.Status_NOT_FOUND, "not-held-height-is-answered-not-found")
	case 2:
		nd.Assert(len(stream.statuses) == 1 && stream.statuses[0] == shrexpb.Status_INTERNAL, "store-error-is-internal")
	case 0:
		if sc.reserveErr {
			nd.Assert(len(stream.statuses) == 0 && stream.resets >= 1, "resource-exhaustion-resets")
			return
		}
		nd.Assert(len(stream.statuses) == 1, "one-status")
		if stream.statuses[0] == shrexpb.Status_OK {
			nd.Cover("ok")
			nd.Assert(len(acc.calls) >= 1, "ok-only-after-the-data-was-read")
		} else {
			nd.Cover("refused")
			nd.Assert(stream.statuses[0] == shrexpb.Status_INTERNAL, "out-of-bounds-is-an-error-status")
		}
	}
}

//verif:opts nopanic nodeadlock threads=16 cover=malformed,invalid,notfound,ok
func VerifH_C09_NamespaceData() { verifServe(0, shwap.NamespaceDataIDSize) }

//verif:opts nopanic nodeadlock threads=16 cover=malformed,invalid,notfound,ok
func VerifH_C09_Eds() { verifServe(1, shwap.EdsIDSize) }

//verif:opts nopanic nodeadlock threads=16 cover=malformed,invalid,notfound,ok,refused
func VerifH_C09_Sample() { verifServe(2, shwap.SampleIDSize) }

//verif:opts nopanic nodeadlock threads=16 cover=malformed,invalid,notfound,ok,refused
func VerifH_C09_Row() { verifServe(3, shwap.RowIDSize) }

//verif:opts nopanic nodeadlock threads=16 cover=malformed,invalid,notfound,ok,refused
func VerifH_C09_Range() { verifServe(4, shwap.RangeNamespaceDataIDSize) }

// ---- two requests of one type in flight ----------------------------------------

// a store with one block per height whose lookup takes time (other streams run
// while a request waits for its file)
type verifStore2 struct{ accs map[uint64]*verifAcc }

func (s *verifStore2) GetByHeight(_ context.Context, h uint64) (eds.AccessorStreamer, error) {
	nd.Yield()
	acc, ok := s.accs[h]
	if !ok {
		return nil, store.ErrNotFound
	}
	nd.Yield()
	return eds.AccessorAndStreamer(eds.WithValidation(acc), acc), nil
}
func (s *verifStore2) HasByHeight(_ context.Context, h uint64) (bool, error) {
	_, ok := s.accs[h]
	return ok, nil
}

// Two peers ask one server for data of the same type at the same time: each is
// answered from the block and at the coordinates of ITS OWN request, whatever
// the interleaving of the two handlers.
//
//verif:opts nopanic nodeadlock noreplay preempt=1 preempt_thorough=2 threads=16 cover=row,sample,range,both-served
func VerifH_C09_ConcurrentRequestsKeepTheirOwnCoordinates() {
	const width = 4
	heights := [2]uint64{7, 8}
	st := &verifStore2{accs: map[uint64]*verifAcc{7: {width: width}, 8: {width: width}}}
	srv := &Server{store: st, params: DefaultServerParameters()}
	kind := nd.Choice(3, "kind") // 0 row, 1 sample, 2 share range
	reqIdx := []int{3, 2, 4}[kind]
	var rows, cols [2]int
	var streams [2]*verifStream
	for i := range streams {
		rows[i], cols[i] = nd.Int("row"), nd.Int("col")
		nd.Assume(rows[i] >= 0 && rows[i] < width && cols[i] >= 0 && cols[i] < width)
		var raw []byte
		if kind == 2 { // rows[i] = from, cols[i] = to-from-1 (ODS of 2x2 shares)
			nd.Assume(rows[i]+cols[i]+1 <= (width/2)*(width/2))
			eid, err := shwap.NewEdsID(heights[i])
			nd.Assume(err == nil)
			id, err := shwap.NewRangeNamespaceDataID(eid, rows[i], rows[i]+cols[i]+1, width/2)
			nd.Assume(err == nil)
			raw, err = id.MarshalBinary()
			nd.Assume(err == nil)
			nd.Cover("range")
		} else if kind == 0 {
			id, err := shwap.NewRowID(heights[i], rows[i], width)
			nd.Assume(err == nil)
			raw, err = id.MarshalBinary()
			nd.Assume(err == nil)
			nd.Cover("row")
		} else {
			id, err := shwap.NewSampleID(heights[i], shwap.SampleCoords{Row: rows[i], Col: cols[i]}, width)
			nd.Assume(err == nil)
			raw, err = id.MarshalBinary()
			nd.Assume(err == nil)
			nd.Cover("sample")
		}
		streams[i] = &verifStream{in: raw, scope: &verifScope{}}
	}
	verifCurStream = streams[0]
	handler := srv.streamHandler(context.Background(), registry[reqIdx]) // registered once, serves every stream
	done := make(chan struct{}, 2)
	for i := range streams {
		s := streams[i]
		go func() {
			handler(s)
			done <- struct{}{}
		}()
	}
	<-done
	<-done
	for i := range streams {
		acc := st.accs[heights[i]]
		nd.Assert(len(streams[i].statuses) == 1 && streams[i].statuses[0] == shrexpb.Status_OK, "valid-concurrent-request-is-served")
		nd.Assert(acc.closed == 1, "accessor-closed-exactly-once")
		for c, name := range acc.calls {
			switch name {
			case "AxisHalf":
				nd.Assert(kind == 0 && acc.args[c][0] == int(rsmt2d.Row) && acc.args[c][1] == rows[i], "request-is-answered-at-its-own-coordinates")
			case "Sample":
				nd.Assert(kind == 1 && acc.args[c][0] == rows[i] && acc.args[c][1] == cols[i], "request-is-answered-at-its-own-coordinates")
			case "RangeNamespaceData":
				nd.Assert(kind == 2 && acc.args[c][0] == rows[i] && acc.args[c][1] == rows[i]+cols[i]+1, "request-is-answered-at-its-own-coordinates")
			case "AxisRoots":
			default:
				nd.Assert(false, "request-is-answered-at-its-own-coordinates")
			}
		}
		sc := streams[i].scope
		nd.Assert(len(sc.released) == len(sc.reserved), "memory-released-iff-reserved")
	}
	nd.Cover("both-served")
}
