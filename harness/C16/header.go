//verif:overlay header/zz_verif_c16.go
//verif:replace (github.com/cometbft/cometbft/types.Header).ValidateBasic github.com/celestiaorg/celestia-node/header.verifHeaderValidateBasic
//verif:replace (*github.com/cometbft/cometbft/types.Header).Hash github.com/celestiaorg/celestia-node/header.verifHeaderHash
//verif:replace (*github.com/cometbft/cometbft/types.Commit).ValidateBasic github.com/celestiaorg/celestia-node/header.verifCommitValidateBasic
//verif:replace (*github.com/cometbft/cometbft/types.ValidatorSet).ValidateBasic github.com/celestiaorg/celestia-node/header.verifValsValidateBasic
//verif:replace (*github.com/cometbft/cometbft/types.ValidatorSet).Hash github.com/celestiaorg/celestia-node/header.verifValsHash
//verif:replace (*github.com/cometbft/cometbft/types.ValidatorSet).VerifyCommitLight github.com/celestiaorg/celestia-node/header.verifVerifyCommitLight
//verif:replace (*github.com/cometbft/cometbft/types.ValidatorSet).VerifyCommitLightTrusting github.com/celestiaorg/celestia-node/header.verifVerifyCommitLightTrusting
//verif:replace github.com/cometbft/cometbft/types.IsErrNotEnoughVotingPowerSigned github.com/celestiaorg/celestia-node/header.verifIsNotEnough
//verif:replace (*github.com/celestiaorg/celestia-app/v9/pkg/da.DataAvailabilityHeader).Hash github.com/celestiaorg/celestia-node/header.verifDAHHash
//verif:replace (*github.com/celestiaorg/celestia-app/v9/pkg/da.DataAvailabilityHeader).ValidateBasic github.com/celestiaorg/celestia-node/header.verifDAHValidateBasic
//verif:replace (github.com/cometbft/cometbft/types.BlockID).String github.com/celestiaorg/celestia-node/header.verifBlockIDString
//verif:replace github.com/celestiaorg/celestia-node/header.unmarshalCommit github.com/celestiaorg/celestia-node/header.verifUnmarshalCommit
//verif:replace golang.org/x/crypto/blake2b.Sum256 github.com/celestiaorg/celestia-node/header.verifBlake
//verif:replace (*github.com/libp2p/go-libp2p-pubsub/pb.Message).GetData github.com/celestiaorg/celestia-node/header.verifGetData
//verif:replace (github.com/cometbft/cometbft/libs/bytes.HexBytes).Bytes github.com/celestiaorg/celestia-node/header.verifHexBytes
//verif:bound extended-header validation and verification glue: every field the repository code compares is symbolic (64-bit heights, app version, 8-byte digests for the four hashes and the four committed hash fields); every library verdict (ValidateBasic of header/commit/validator set/DAH, VerifyCommitLight, VerifyCommitLightTrusting and its error class) is an arbitrary boolean; trusted/untrusted heights arbitrary (adjacent or not)
//verif:assume ideal commitment model: Header.Hash, ValidatorSet.Hash and DAH.Hash are injective functions of their object (an arbitrary 8-byte digest per object); the cometbft signature/voting-power checks are trusted verdicts - what is decided is that Validate/Verify answer nil exactly when every required verdict is positive and every required equality holds, with the right operands (this header's validator set, commit, chain id, height)
//verif:outside protobuf/JSON re-encoding (gogoproto-generated code and tmjson reflection are outside the encoder), the cometbft library itself, go-header's height/time pre-checks
package header

import (
	"errors"

	cmtbytes "github.com/cometbft/cometbft/libs/bytes"
	cmtmath "github.com/cometbft/cometbft/libs/math"
	"github.com/cometbft/cometbft/light"
	core "github.com/cometbft/cometbft/types"
	pb "github.com/libp2p/go-libp2p-pubsub/pb"

	"github.com/celestiaorg/celestia-app/v9/pkg/da"
	libhead "github.com/celestiaorg/go-header"

	nd "github.com/celestiaorg/celestia-node/verifnd"
)

type verifWorld struct {
	hdrBasic, commitBasic, valsBasic, dahBasic bool
	hdrHash, dahHash                           map[any][]byte
	valsHash                                   map[*core.ValidatorSet][]byte
	lightOK                                    bool
	lightCalls                                 int
	lightArgsOK                                bool
	trustOK, trustNotEnough                    bool
	trustCalls                                 int
	trustArgsOK                                bool
	expect                                     *verifExpect
}

type verifExpect struct {
	vals    *core.ValidatorSet
	chain   string
	blockID *core.BlockID
	height  int64
	commit  *core.Commit
}

var verifW *verifWorld

var verifErrNotEnough = errors.New("not enough voting power signed")

func verifDigest(tag string) []byte {
	b := nd.Bytes(8, tag)
	return b
}

func verifHeaderValidateBasic(h core.Header) error {
	if verifW.hdrBasic {
		return nil
	}
	return errors.New("header: basic validation failed")
}

func verifHeaderHash(h *core.Header) []byte {
	if d, ok := verifW.hdrHash[h]; ok {
		return append([]byte(nil), d...)
	}
	d := verifDigest("H(header)")
	verifW.hdrHash[h] = d
	return append([]byte(nil), d...)
}

func verifCommitValidateBasic(c *core.Commit) error {
	if verifW.commitBasic {
		return nil
	}
	return errors.New("commit: basic validation failed")
}

func verifValsValidateBasic(v *core.ValidatorSet) error {
	if verifW.valsBasic {
		return nil
	}
	return errors.New("validator set: basic validation failed")
}

func verifValsHash(v *core.ValidatorSet) []byte {
	if d, ok := verifW.valsHash[v]; ok {
		return append([]byte(nil), d...)
	}
	d := verifDigest("H(vals)")
	verifW.valsHash[v] = d
	return append([]byte(nil), d...)
}

func verifDAHHash(d *da.DataAvailabilityHeader) []byte {
	if x, ok := verifW.dahHash[d]; ok {
		return append([]byte(nil), x...)
	}
	x := verifDigest("H(dah)")
	verifW.dahHash[d] = x
	return append([]byte(nil), x...)
}

func verifDAHValidateBasic(d *da.DataAvailabilityHeader) error {
	if verifW.dahBasic {
		return nil
	}
	return errors.New("dah: basic validation failed")
}

func verifSameBlockID(a, b core.BlockID) bool {
	return nd.EqBytes(a.Hash, b.Hash) && a.PartSetHeader.Total == b.PartSetHeader.Total &&
		nd.EqBytes(a.PartSetHeader.Hash, b.PartSetHeader.Hash)
}

func verifVerifyCommitLight(v *core.ValidatorSet, chainID string, blockID core.BlockID, height int64, commit *core.Commit) error {
	w := verifW
	w.lightCalls++
	e := w.expect
	w.lightArgsOK = v == e.vals && chainID == e.chain && verifSameBlockID(blockID, *e.blockID) && height == e.height && commit == e.commit
	if w.lightOK {
		return nil
	}
	return errors.New("commit: not signed by +2/3")
}

func verifVerifyCommitLightTrusting(v *core.ValidatorSet, chainID string, commit *core.Commit, lvl cmtmath.Fraction) error {
	w := verifW
	w.trustCalls++
	e := w.expect
	w.trustArgsOK = v == e.vals && chainID == e.chain && commit == e.commit && lvl.Numerator == 1 && lvl.Denominator == 3
	if w.trustOK {
		return nil
	}
	if w.trustNotEnough {
		return verifErrNotEnough
	}
	return errors.New("commit: invalid signature")
}

func verifIsNotEnough(err error) bool { return err == verifErrNotEnough }

func verifNewWorld() *verifWorld {
	light.DefaultTrustLevel = cmtmath.Fraction{Numerator: 1, Denominator: 3}
	return &verifWorld{
		hdrBasic: nd.Bool("hdrBasic"), commitBasic: nd.Bool("commitBasic"), valsBasic: nd.Bool("valsBasic"), dahBasic: nd.Bool("dahBasic"),
		hdrHash: map[any][]byte{}, dahHash: map[any][]byte{}, valsHash: map[*core.ValidatorSet][]byte{},
		lightOK: nd.Bool("lightOK"), trustOK: nd.Bool("trustOK"), trustNotEnough: nd.Bool("trustNotEnough"),
	}
}

func verifAll(bs ...bool) bool {
	r := true
	for _, b := range bs {
		r = nd.And(r, b)
	}
	return r
}

// an arbitrary extended header: every compared field symbolic
func verifArbitraryHeader(tag string) *ExtendedHeader {
	eh := &ExtendedHeader{DAH: &da.DataAvailabilityHeader{}, Commit: &core.Commit{}, ValidatorSet: &core.ValidatorSet{}}
	eh.RawHeader.ChainID = "chain"
	eh.RawHeader.Height = nd.I64(tag + ".height")
	eh.RawHeader.Version.App = nd.U64(tag + ".app")
	eh.RawHeader.ValidatorsHash = nd.Bytes(8, tag+".ValidatorsHash")
	eh.RawHeader.NextValidatorsHash = nd.Bytes(8, tag+".NextValidatorsHash")
	eh.RawHeader.DataHash = nd.Bytes(8, tag+".DataHash")
	eh.RawHeader.LastBlockID.Hash = nd.Bytes(8, tag+".LastBlockID")
	eh.Commit.Height = nd.I64(tag + ".commit.height")
	eh.Commit.BlockID.Hash = nd.Bytes(8, tag+".commit.block")
	return eh
}

// Validate answers nil exactly when all basic checks pass, the app version is
// supported, the validator set and the DAH hash to the committed fields, the
// commit is for this very header (height and hash) and more than 2/3 of THIS
// validator set signed THIS commit for THIS block id, chain and height.
//
//verif:opts nopanic nodeadlock noreplay cover=accepted,rejected
func VerifH_C16_ValidateAcceptsOnlyConsistent() {
	verifW = verifNewWorld()
	w := verifW
	eh := verifArbitraryHeader("eh")
	w.expect = &verifExpect{vals: eh.ValidatorSet, chain: "chain", blockID: &eh.Commit.BlockID, height: eh.RawHeader.Height, commit: eh.Commit}

	err := eh.Validate()

	hh := verifHeaderHash(&eh.RawHeader)
	vh := verifValsHash(eh.ValidatorSet)
	dh := verifDAHHash(eh.DAH)
	want := verifAll(w.hdrBasic, w.commitBasic, w.valsBasic, w.dahBasic,
		nd.And(eh.RawHeader.Version.App >= 1, eh.RawHeader.Version.App <= 9),
		nd.EqBytes(eh.RawHeader.ValidatorsHash, vh),
		nd.EqBytes(eh.RawHeader.DataHash, dh),
		eh.Commit.Height == eh.RawHeader.Height,
		nd.EqBytes(eh.Commit.BlockID.Hash, hh),
		w.lightOK)
	if err == nil {
		nd.Cover("accepted")
		nd.Assert(want, "accepted-header-is-consistent-and-signed")
		nd.Assert(w.lightCalls == 1 && w.lightArgsOK, "commit-verified-against-this-validator-set-block-height-and-chain")
		nd.Assert(nd.EqBytes(eh.Hash(), hh), "hash-is-the-hash-of-the-signed-header")
	} else {
		nd.Cover("rejected")
		nd.Assert(!want, "consistent-signed-header-is-not-rejected")
	}
}

// Verify against a trusted header: adjacent heights need the validator-hash
// link and the last-header link; non-adjacent heights need the trusting
// verdict of the TRUSTED validator set over the UNTRUSTED commit at 1/3, and a
// failure is soft exactly for "not enough voting power".
//
//verif:opts nopanic nodeadlock noreplay cover=adjacent-ok,adjacent-bad,skip-ok,skip-soft,skip-hard
func VerifH_C16_VerifyLinksOrTrusts() {
	verifW = verifNewWorld()
	w := verifW
	tr := verifArbitraryHeader("trusted")
	un := verifArbitraryHeader("untrusted")
	w.expect = &verifExpect{vals: tr.ValidatorSet, chain: "chain", commit: un.Commit}

	err := tr.Verify(un)

	adjacent := uint64(tr.RawHeader.Height)+1 == uint64(un.RawHeader.Height)
	if adjacent {
		linked := nd.And(nd.EqBytes(un.RawHeader.ValidatorsHash, tr.RawHeader.NextValidatorsHash),
			nd.EqBytes(un.RawHeader.LastBlockID.Hash, tr.Commit.BlockID.Hash))
		if err == nil {
			nd.Cover("adjacent-ok")
			nd.Assert(linked, "adjacent-header-links-to-the-trusted-one")
		} else {
			nd.Cover("adjacent-bad")
			nd.Assert(!linked, "linked-adjacent-header-is-not-rejected")
		}
		return
	}
	nd.Assert(w.trustCalls == 1 && w.trustArgsOK, "trusting-check-uses-trusted-validators-untrusted-commit-one-third")
	if err == nil {
		nd.Cover("skip-ok")
		nd.Assert(w.trustOK, "non-adjacent-header-needs-the-trusting-verdict")
		return
	}
	nd.Assert(!w.trustOK, "trusted-non-adjacent-header-is-not-rejected")
	ve, isVE := err.(*libhead.VerifyError)
	nd.Assert(isVE && ve != nil, "verification-failure-is-a-VerifyError")
	soft := ve.SoftFailure
	if w.trustNotEnough {
		nd.Cover("skip-soft")
		nd.Assert(soft, "not-enough-power-is-a-soft-failure")
	} else {
		nd.Cover("skip-hard")
		nd.Assert(!soft, "invalid-commit-is-a-hard-failure")
	}
}

// ---- gossip message id --------------------------------------------------------

var (
	verifCommitDecodes bool
	verifDecoded       *core.Commit
	verifIDString      string
)

func verifUnmarshalCommit(data []byte) (*core.Commit, error) {
	if !verifCommitDecodes {
		return nil, errors.New("proto: cannot decode")
	}
	return verifDecoded, nil
}

func verifBlockIDString(b core.BlockID) string {
	if nd.EqBytes(b.Hash, verifDecoded.BlockID.Hash) {
		return verifIDString
	}
	return "other-block"
}

func verifGetData(m *pb.Message) []byte { return m.Data }

func verifHexBytes(b cmtbytes.HexBytes) []byte { return b }

func verifBlake(data []byte) [32]byte {
	var out [32]byte
	out[0] = 0xB2
	return out
}

// The gossip message id of a decodable header message is the string of the
// block id its commit signs - independent of every other byte of the message.
//
//verif:opts nopanic nodeadlock noreplay cover=decodes,garbage
func VerifH_C16_MsgIDDependsOnlyOnTheCommittedBlock() {
	verifCommitDecodes = nd.Bool("decodes")
	verifDecoded = &core.Commit{Height: nd.I64("h"), Round: nd.I32("round")}
	verifDecoded.BlockID.Hash = nd.Bytes(8, "block")
	verifIDString = "BLOCKID"
	msg := &pb.Message{Data: nd.Bytes(4, "payload")}
	id := MsgID(msg)
	if verifCommitDecodes {
		nd.Cover("decodes")
		nd.Assert(id == verifIDString, "message-id-is-the-committed-block-id")
	} else {
		nd.Cover("garbage")
		var want [32]byte
		want[0] = 0xB2
		nd.Assert(id == string(want[:]), "undecodable-message-id-is-the-hash-of-its-bytes")
	}
}
