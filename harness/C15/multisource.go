//verif:overlay core/zz_verif_c15_multisource.go
//verif:bound multi-source fan-in: 2 sources announcing 1..2 heights each (the same or different heights, i.e. duplicates and a lagging source), a subscription that fails for one source, network verification with each source on the expected chain, on another chain or unreachable; every interleaving of the source goroutines with 1 scheduling deviation; consumer context cancelled at the end
//verif:assume block sources are recording models of the blockSource interface
package core

import (
	"context"
	"errors"

	nd "github.com/celestiaorg/celestia-node/verifnd"
)

type verifSrc struct {
	name       string
	heights    []int64
	subFails   bool
	chain      string
	chainFails bool
	fetched    []int64
	syncAsked  int
}

func (s *verifSrc) SubscribeNewBlockEvent(ctx context.Context) (chan BlockEvent, error) {
	if s.subFails {
		return nil, errors.New("source: cannot subscribe")
	}
	ch := make(chan BlockEvent, len(s.heights))
	for _, h := range s.heights {
		ch <- BlockEvent{Height: h, addr: "ignored-by-the-fan-in"}
	}
	close(ch)
	return ch, nil
}

func (s *verifSrc) GetSignedBlock(ctx context.Context, h int64) (*SignedBlock, error) {
	s.fetched = append(s.fetched, h)
	return &SignedBlock{}, nil
}

func (s *verifSrc) ChainID(ctx context.Context) (string, error) {
	if s.chainFails {
		return "", errors.New("source: unreachable")
	}
	return s.chain, nil
}

func (s *verifSrc) IsSyncing(ctx context.Context) (bool, error) {
	s.syncAsked++
	return s.name == "B", nil
}

// The fan-in forwards every announced height exactly once per announcing
// source, tagged with that source; fetch and sync-status for an event go to
// the announcing source only - never to another one; the merged channel closes
// once every source is done; verification keeps exactly the sources on the
// expected chain.
//
//verif:opts nopanic nodeadlock noreplay preempt=1 threads=8 cover=forwarded,duplicate-height,sub-failed,dropped-wrong-chain,none-left
func VerifH_C15_MultiSourceRoutesToTheAnnouncingSource() {
	a := &verifSrc{name: "A", chain: "chain"}
	b := &verifSrc{name: "B", chain: "chain"}
	for i := 1 + nd.Choice(2, "aHeights"); i > 0; i-- {
		a.heights = append(a.heights, int64(10+len(a.heights)))
	}
	for i := 1 + nd.Choice(2, "bHeights"); i > 0; i-- {
		b.heights = append(b.heights, int64(10+len(b.heights)))
	}
	b.subFails = nd.Choice(2, "bSubFails") == 1
	m := newMultiSource(taggedSource{fetcher: a, addr: "addrA"}, taggedSource{fetcher: b, addr: "addrB"})

	// network verification
	switch nd.Choice(4, "verify") {
	case 1:
		b.chain = "other"
		nd.Cover("dropped-wrong-chain")
		nd.Assert(m.Verify(context.Background(), "chain") == nil, "one-good-source-is-enough")
		_, stillThere := m.sources["addrB"]
		nd.Assert(!stillThere && len(m.sources) == 1, "source-on-another-chain-is-dropped")
		b.heights, b.subFails = nil, true // it must not be used any more
	case 2:
		a.chainFails, b.chain = true, "other"
		nd.Cover("none-left")
		nd.Assert(m.Verify(context.Background(), "chain") != nil, "no-usable-source-is-an-error")
		return
	case 3:
		nd.Assert(m.Verify(context.Background(), "") != nil, "expected-chain-must-be-configured")
		return
	}

	ctx, cancel := context.WithCancel(context.Background())
	defer cancel()
	out, err := m.SubscribeNewBlockEvent(ctx)
	nd.Assert(err == nil, "subscribe")
	got := map[string][]int64{}
	for ev := range out { // ends only because the fan-in closes the channel
		got[ev.addr] = append(got[ev.addr], ev.Height)
		nd.Cover("forwarded")
		// the consumer asks the announcing source - and only it
		fa, fb, sa, sb := len(a.fetched), len(b.fetched), a.syncAsked, b.syncAsked
		_, ferr := m.GetSignedBlockFrom(ctx, ev)
		_, serr := m.IsSyncingFrom(ctx, ev)
		nd.Assert(ferr == nil && serr == nil, "announcing-source-is-known")
		if ev.addr == "addrA" {
			nd.Assert(len(a.fetched) == fa+1 && a.fetched[fa] == ev.Height && len(b.fetched) == fb && a.syncAsked == sa+1 && b.syncAsked == sb, "fetch-and-sync-status-go-to-the-announcing-source-only")
		} else {
			nd.Assert(ev.addr == "addrB", "event-is-tagged-with-its-source")
			nd.Assert(len(b.fetched) == fb+1 && b.fetched[fb] == ev.Height && len(a.fetched) == fa && b.syncAsked == sb+1 && a.syncAsked == sa, "fetch-and-sync-status-go-to-the-announcing-source-only")
		}
	}
	// everything announced arrived, once per announcing source, in that source's order
	nd.Assert(len(got["addrA"]) == len(a.heights), "every-announcement-is-forwarded-once")
	for i, h := range got["addrA"] {
		nd.Assert(h == a.heights[i], "every-announcement-is-forwarded-once")
	}
	if b.subFails {
		nd.Cover("sub-failed")
		nd.Assert(len(got["addrB"]) == 0, "failed-subscription-forwards-nothing")
	} else {
		nd.Assert(len(got["addrB"]) == len(b.heights), "every-announcement-is-forwarded-once")
		nd.Cover("duplicate-height")
	}
	_, ferr := m.GetSignedBlockFrom(ctx, BlockEvent{Height: 10, addr: "unknown"})
	nd.Assert(ferr != nil, "unknown-source-is-refused")
}
