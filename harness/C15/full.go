//verif:overlay share/availability/full/zz_verif_c15_full.go
//verif:pkgs ./share ./share/shwap ./share/eds/byzantine
//verif:init github.com/celestiaorg/celestia-node/share/shwap github.com/celestiaorg/celestia-node/share github.com/celestiaorg/celestia-node/share/availability
//verif:replace (*github.com/celestiaorg/celestia-app/v9/pkg/da.DataAvailabilityHeader).Hash github.com/celestiaorg/celestia-node/share/availability/full.verifDAHHash
//verif:replace github.com/celestiaorg/celestia-node/share.EmptyEDSDataHash github.com/celestiaorg/celestia-node/share/availability/full.verifEmptyHash
//verif:replace github.com/celestiaorg/celestia-node/share.EmptyEDS github.com/celestiaorg/celestia-node/share/availability/full.verifEmptyEDS
//verif:bound full availability (header-only ingest): one header with an arbitrary symbolic timestamp against an arbitrary clock, archival / pruned, empty or non-empty data hash, block already stored or not, getter outcome: a square, not found, deadline, cancellation, byzantine error (alone or wrapping a deadline), other error; store put may fail
//verif:assume the getter hands back only squares verified against the header it was asked for (C06/C01); the empty square and hash are fixed tokens
package full

import (
	"context"
	"errors"
	"fmt"
	"time"

	"github.com/celestiaorg/celestia-app/v9/pkg/da"
	"github.com/celestiaorg/rsmt2d"

	"github.com/celestiaorg/celestia-node/header"
	"github.com/celestiaorg/celestia-node/share"
	"github.com/celestiaorg/celestia-node/share/availability"
	"github.com/celestiaorg/celestia-node/share/eds/byzantine"
	"github.com/celestiaorg/celestia-node/share/shwap"
	"github.com/celestiaorg/celestia-node/store"
	nd "github.com/celestiaorg/celestia-node/verifnd"
)

var (
	verifIsEmpty  bool
	verifEmptySq  = new(rsmt2d.ExtendedDataSquare)
	verifEmptyTok = []byte{0xEE, 1, 2, 3}
)

func verifDAHHash(d *da.DataAvailabilityHeader) []byte {
	if verifIsEmpty {
		return append([]byte(nil), verifEmptyTok...)
	}
	return []byte{0x11, 1, 2, 3}
}
func verifEmptyHash() share.DataHash            { return append([]byte(nil), verifEmptyTok...) }
func verifEmptyEDS() *rsmt2d.ExtendedDataSquare { return verifEmptySq }

type verifGetter struct {
	shwap.Getter
	outcome int
	calls   int
	asked   *header.ExtendedHeader
	sq      *rsmt2d.ExtendedDataSquare
}

func (g *verifGetter) GetEDS(ctx context.Context, h *header.ExtendedHeader) (*rsmt2d.ExtendedDataSquare, error) {
	g.calls++
	g.asked = h
	switch g.outcome {
	case 0:
		g.sq = new(rsmt2d.ExtendedDataSquare)
		return g.sq, nil
	case 1:
		return nil, fmt.Errorf("getter: %w", shwap.ErrNotFound)
	case 2:
		return nil, fmt.Errorf("getter: %w", context.DeadlineExceeded)
	case 3:
		return nil, fmt.Errorf("getter: %w", context.Canceled)
	case 4:
		return nil, &byzantine.ErrByzantine{}
	case 5:
		return nil, errors.Join(context.DeadlineExceeded, &byzantine.ErrByzantine{})
	}
	return nil, errors.New("getter: other failure")
}

// Success means the height holds the square the getter returned for THIS
// header (or was stored already, or the empty square for the empty hash),
// stored under the header's own DAH; every getter failure stores nothing and
// is reported (not found / deadline as "not available", cancellation as
// cancellation, byzantine as itself); a pruned node refuses blocks outside
// the window without fetching; an archival node stores them without parity.
//
//verif:opts nopanic nodeadlock noreplay cover=stored,already,empty,unavailable,cancelled,byzantine,outside,archival-old
func VerifH_C15_FullAvailabilityStoresTheRequestedBlock() {
	store.VerifReset()
	store.VerifFailPut, store.VerifFailHas = nd.Bool("putFails"), nd.Bool("lookupFails")
	archival := nd.Bool("archival")
	verifIsEmpty = nd.Bool("emptyBlock")
	already := nd.Bool("alreadyStored")
	tns := nd.I64("blocktime")
	nd.Assume(tns > 0 && tns < 1<<60)
	eh := &header.ExtendedHeader{DAH: &da.DataAvailabilityHeader{}}
	eh.RawHeader.Height = 9
	eh.RawHeader.Time = time.Unix(0, tns)
	if already {
		store.VerifPuts = append(store.VerifPuts, store.VerifPut{Height: 9, Roots: eh.DAH, EDS: new(rsmt2d.ExtendedDataSquare), Q4: true})
	}
	if nd.Bool("sameSquareAtAnotherHeight") {
		// the same data (hence the same data hash) is already stored under height 5
		store.VerifPuts = append(store.VerifPuts, store.VerifPut{Height: 5, Roots: &da.DataAvailabilityHeader{}, EDS: new(rsmt2d.ExtendedDataSquare), Q4: true})
	}
	g := &verifGetter{outcome: nd.Choice(7, "getter")}
	fa := &ShareAvailability{getter: g, storageWindow: availability.StorageWindow, archival: archival}
	window := int64(availability.StorageWindow)

	start := time.Now().UnixNano()
	putsBefore := len(store.VerifPuts)
	err := fa.SharesAvailable(context.Background(), eh)
	end := time.Now().UnixNano()
	outsideAtStart := start-tns > window
	insideAtEnd := end-tns <= window

	if !archival && outsideAtStart {
		nd.Cover("outside")
		nd.Assert(errors.Is(err, availability.ErrOutsideSamplingWindow), "pruned-node-refuses-blocks-outside-the-window")
		nd.Assert(g.calls == 0 && len(store.VerifPuts) == putsBefore, "pruned-node-never-stores-outside-the-window")
		return
	}
	if !archival && errors.Is(err, availability.ErrOutsideSamplingWindow) {
		// refused although not outside at the first clock reading: the block
		// left the window before the check read the clock
		nd.Assert(!insideAtEnd, "block-inside-the-window-is-not-refused")
		nd.Assert(g.calls == 0 && len(store.VerifPuts) == putsBefore, "pruned-node-never-stores-outside-the-window")
		return
	}
	if err == nil {
		p := store.VerifStored(9)
		nd.Assert(p != nil, "success-means-the-block-is-stored")
		nd.Assert(p.Roots == eh.DAH, "stored-under-the-headers-own-DAH")
		switch {
		case already:
			nd.Cover("already")
			nd.Assert(len(store.VerifPuts) == putsBefore, "stored-block-is-kept")
		case verifIsEmpty:
			nd.Cover("empty")
			nd.Assert(p.EDS == verifEmptySq && g.calls == 0, "empty-block-is-linked-to-the-empty-square")
		default:
			nd.Cover("stored")
			nd.Assert(g.calls == 1 && g.asked == eh && p.EDS == g.sq && g.sq != nil, "stored-square-is-the-one-fetched-for-this-header")
			if insideAtEnd {
				nd.Assert(p.Q4, "block-inside-the-window-is-stored-with-parity")
			}
			if outsideAtStart {
				nd.Cover("archival-old")
				nd.Assert(!p.Q4, "archival-node-stores-old-blocks-without-parity")
			}
		}
		return
	}
	// failure: nothing new stored, error class preserved
	nd.Assert(len(store.VerifPuts) == putsBefore, "failed-ingest-stores-nothing")
	if store.VerifPutFailed > 0 {
		return
	}
	nd.Assert(!verifIsEmpty && (!already || store.VerifHasFailed > 0), "stored-or-empty-block-needs-no-fetch")
	switch g.outcome {
	case 0:
		nd.Assert(false, "fetched-square-is-stored")
	case 1, 2:
		nd.Cover("unavailable")
		nd.Assert(errors.Is(err, share.ErrNotAvailable), "not-found-or-deadline-is-reported-as-not-available")
	case 3:
		nd.Cover("cancelled")
		nd.Assert(errors.Is(err, context.Canceled) && !errors.Is(err, share.ErrNotAvailable), "cancellation-is-not-unavailability")
	case 4, 5:
		nd.Cover("byzantine")
		var be *byzantine.ErrByzantine
		nd.Assert(errors.As(err, &be), "byzantine-error-is-passed-on")
	default:
		nd.Assert(!errors.Is(err, share.ErrNotAvailable), "other-errors-are-not-unavailability")
	}
}
