//verif:overlay core/zz_verif_c15.go
//verif:pkgs ./share/availability ./header ./libs/utils
//verif:replace github.com/celestiaorg/celestia-app/v9/pkg/da.ConstructEDS github.com/celestiaorg/celestia-node/core.verifConstructEDS
//verif:replace (github.com/cometbft/cometbft/types.Txs).ToSliceOfBytes github.com/celestiaorg/celestia-node/core.verifTxsBytes
//verif:replace (github.com/cometbft/cometbft/libs/bytes.HexBytes).Bytes github.com/celestiaorg/celestia-node/core.verifHexBytes
//verif:replace github.com/libp2p/go-libp2p-pubsub.WithLocalPublication github.com/celestiaorg/celestia-node/core.verifWithLocal
//verif:replace os.LookupEnv github.com/celestiaorg/celestia-node/core.verifLookupEnv
//verif:replace context.WithTimeout github.com/celestiaorg/celestia-node/core.verifWithTimeout
//verif:noop go.opentelemetry.io/otel github.com/celestiaorg/celestia-app/v9/pkg/da github.com/ipfs/go-log/v2 go.uber.org/zap
//verif:bound bridge ingest: 2 (quick) / 3 (thorough) block events, each for one of 2 consecutive heights announced by one of 2 sources (duplicates, re-ordering, a lagging source replaying the lower height); per event at most one fault: the fetch, the sync-status query or the store put fails (thorough: also the store lookup or the header broadcast); block timestamps and the clock are arbitrary symbolic instants (clock non-decreasing), window = the storage window; archival and pruned mode; syncing flag arbitrary
//verif:assume erasure coding and DAH computation are ideal: ConstructEDS yields a fresh square tagged with the block's transactions, the header constructor yields a DAH tagged with the square it was computed from (that equal data give equal hashes is the library's contract); broadcasters are recording models
//verif:outside MultiSource fan-in goroutines and subscription retry loop (core/multisource.go, listen()), real cometbft types decoding, wrong-chain crash path
package core

import (
	"context"
	"errors"
	"time"

	cmtbytes "github.com/cometbft/cometbft/libs/bytes"
	"github.com/cometbft/cometbft/types"
	pubsub "github.com/libp2p/go-libp2p-pubsub"

	"github.com/celestiaorg/celestia-app/v9/pkg/da"
	"github.com/celestiaorg/rsmt2d"

	"github.com/celestiaorg/celestia-node/header"
	"github.com/celestiaorg/celestia-node/share/availability"
	"github.com/celestiaorg/celestia-node/share/shwap/p2p/shrex/shrexsub"
	"github.com/celestiaorg/celestia-node/store"
	nd "github.com/celestiaorg/celestia-node/verifnd"
)

func verifLookupEnv(string) (string, bool) { return "", false }

// the 10 s fetch / sync-status deadlines are not modelled as timers: an expired
// deadline is one of the fetcher's failure outcomes
func verifWithTimeout(ctx context.Context, d time.Duration) (context.Context, context.CancelFunc) {
	return context.WithCancel(ctx)
}
func verifHexBytes(b cmtbytes.HexBytes) []byte { return b }

var (
	verifEdsTag   map[*rsmt2d.ExtendedDataSquare]int
	verifDahEds   map[*da.DataAvailabilityHeader]*rsmt2d.ExtendedDataSquare
	verifEhTag    map[*header.ExtendedHeader]int
	verifLastTag  int
	verifLocalArg bool
)

func verifTxsBytes(t types.Txs) [][]byte {
	if len(t) == 0 {
		return nil
	}
	return [][]byte{t[0]}
}

func verifConstructEDS(txs [][]byte, appVersion uint64, maxSquare int) (*rsmt2d.ExtendedDataSquare, error) {
	e := new(rsmt2d.ExtendedDataSquare)
	verifEdsTag[e] = int(txs[0][0])
	return e, nil
}

func verifConstruct(h *types.Header, c *types.Commit, v *types.ValidatorSet, e *rsmt2d.ExtendedDataSquare) (*header.ExtendedHeader, error) {
	dah := new(da.DataAvailabilityHeader)
	verifDahEds[dah] = e
	eh := &header.ExtendedHeader{RawHeader: *h, Commit: c, ValidatorSet: v, DAH: dah}
	verifEhTag[eh] = verifEdsTag[e]
	return eh, nil
}

func verifWithLocal(local bool) pubsub.PubOpt {
	verifLocalArg = local
	return nil
}

type verifFetcher struct {
	base    int64
	times   [2]time.Time
	fetched []int // tags of fetched blocks (tag = height index)
	syncing bool
	fault   int // this event's fault: 0 none, 1 fetch, 2 sync status, 3 store put, 4 store lookup, 5 broadcast
}

func (f *verifFetcher) Verify(context.Context, string) error { return nil }
func (f *verifFetcher) SubscribeNewBlockEvent(context.Context) (chan BlockEvent, error) {
	return nil, errors.New("unused")
}
func (f *verifFetcher) ChainID(context.Context) (string, error) { return "chain", nil }

func (f *verifFetcher) GetSignedBlockFrom(ctx context.Context, ev BlockEvent) (*SignedBlock, error) {
	if f.fault == 1 {
		return nil, errors.New("fetch: failed")
	}
	i := int(ev.Height - f.base)
	h := &types.Header{ChainID: "chain", Height: ev.Height, Time: f.times[i]}
	h.Version.App = 6
	h.DataHash = []byte{byte(i)}
	f.fetched = append(f.fetched, i)
	return &SignedBlock{Header: h, Commit: &types.Commit{}, ValidatorSet: &types.ValidatorSet{},
		Data: &types.Data{Txs: types.Txs{types.Tx{byte(i)}}}}, nil
}

func (f *verifFetcher) IsSyncingFrom(ctx context.Context, ev BlockEvent) (bool, error) {
	if f.fault == 2 {
		return false, errors.New("sync status: failed")
	}
	return f.syncing, nil
}

type verifPub struct {
	eh    *header.ExtendedHeader
	local bool
}

type verifBroadcaster struct {
	pubs  []verifPub
	fails bool
}

func (b *verifBroadcaster) Broadcast(ctx context.Context, eh *header.ExtendedHeader, opts ...pubsub.PubOpt) error {
	b.pubs = append(b.pubs, verifPub{eh, verifLocalArg})
	if b.fails {
		return errors.New("pubsub: failed")
	}
	return nil
}

// Whatever sequence of announcements, failures and timestamps: the square
// stored under a height is the one built from that height's block and carries
// the DAH of the header published for it; a failed ingest stores and publishes
// nothing and is reported; a block inside the window is stored and published
// exactly once; a pruned node never stores a block outside the window, an
// archival node stores it without the parity quadrant.
//
//verif:opts nopanic nodeadlock noreplay maxwall=1200 cover=stored,failed,duplicate,historic,archival-old,boundary
func VerifH_C15_ListenerStoresWhatItAnnounces() {
	verifEdsTag = map[*rsmt2d.ExtendedDataSquare]int{}
	verifDahEds = map[*da.DataAvailabilityHeader]*rsmt2d.ExtendedDataSquare{}
	verifEhTag = map[*header.ExtendedHeader]int{}
	store.VerifReset()

	archival := nd.Bool("archival")
	window := availability.StorageWindow
	f := &verifFetcher{base: 1000, syncing: nd.Bool("syncing")}
	var tns [2]int64
	for i := range tns {
		tns[i] = nd.I64("blocktime")
		nd.Assume(tns[i] > 0 && tns[i] < 1<<60)
		f.times[i] = time.Unix(0, tns[i])
	}
	bc := &verifBroadcaster{}
	var hashes []shrexsub.Notification
	cl := &Listener{
		fetcher: f, construct: verifConstruct, availabilityWindow: window, archival: archival,
		headerBroadcaster: bc, chainID: "chain",
		hashBroadcaster: func(ctx context.Context, n shrexsub.Notification) error {
			hashes = append(hashes, n)
			return nil
		},
	}

	start := time.Now().UnixNano()
	nEvents := 2
	if nd.Thorough() {
		nEvents = 3
	}
	for e := 0; e < nEvents; e++ {
		// sources alternate (the listener only passes the address through);
		// one fault per event: none, fetch, sync status, store put - thorough
		// adds store lookup and broadcast failures
		ev := BlockEvent{Height: f.base + int64(nd.Choice(2, "height")), addr: []string{"A", "B"}[e%2]}
		nFaults := 4
		if nd.Thorough() {
			nFaults = 6
		}
		f.fault = nd.Choice(nFaults, "fault")
		store.VerifFailPut, store.VerifFailHas, bc.fails = f.fault == 3, f.fault == 4, f.fault == 5
		puts, pubs, nHash := len(store.VerifPuts), len(bc.pubs), len(hashes)
		putFailed, hasFailed := store.VerifPutFailed, store.VerifHasFailed
		had := store.VerifStored(uint64(ev.Height)) != nil
		err := cl.handleNewBlockEvent(context.Background(), ev)
		now := time.Now().UnixNano()
		i := int(ev.Height - f.base)
		inWindowNow := now-tns[i] <= int64(window)
		if err != nil {
			nd.Cover("failed")
			nd.Assert(len(store.VerifPuts) == puts, "failed-ingest-stores-nothing")
			nd.Assert(len(bc.pubs) == pubs && len(hashes) == nHash, "failed-ingest-publishes-nothing")
			continue
		}
		if had {
			nd.Cover("duplicate")
			nd.Assert(len(store.VerifPuts) == puts && len(bc.pubs) == pubs, "duplicate-announcement-is-not-processed-again")
			continue
		}
		nd.Assert(store.VerifPutFailed == putFailed, "store-failure-is-reported")
		if store.VerifHasFailed == hasFailed && inWindowNow {
			// everything worked and the block is (still) inside the window
			nd.Cover("stored")
			nd.Assert(len(store.VerifPuts) == puts+1, "block-inside-the-window-is-stored")
			nd.Assert(len(bc.pubs) == pubs+1, "ingested-block-is-published-once")
			nd.Assert(bc.pubs[pubs].local == f.syncing, "catch-up-blocks-are-published-locally-only")
			nd.Assert((len(hashes) == nHash+1) == !f.syncing, "hash-is-announced-unless-syncing")
		}
	}

	// global relations between what is stored and what was published
	// (non-forking: implications over the symbolic clock readings)
	end := time.Now().UnixNano()
	for _, p := range store.VerifPuts {
		i := int(int64(p.Height) - f.base)
		nd.Assert(i == 0 || i == 1, "stored-height-was-announced")
		nd.Assert(verifDahEds[p.Roots] == p.EDS, "stored-square-matches-the-roots-it-is-stored-with")
		nd.Assert(verifEdsTag[p.EDS] == i, "stored-square-is-built-from-that-heights-block")
		outsideAtStart := start-tns[i] > int64(window)
		insideAtEnd := end-tns[i] <= int64(window)
		nd.Assert(nd.Implies(outsideAtStart, archival), "pruned-node-never-stores-outside-the-window")
		nd.Assert(nd.Implies(outsideAtStart, !p.Q4), "archival-node-stores-old-blocks-without-parity")
		nd.Assert(nd.Implies(insideAtEnd, p.Q4), "block-inside-the-window-is-stored-with-parity")
		nd.CoverIf(outsideAtStart, "archival-old")
		nd.CoverIf(nd.And(!outsideAtStart, !insideAtEnd), "boundary")
	}
	perHeight := [2]int{}
	for _, pb := range bc.pubs {
		i := int(int64(pb.eh.Height()) - f.base)
		nd.Assert(i == 0 || i == 1, "published-height-was-announced")
		perHeight[i]++
		nd.Assert(verifEhTag[pb.eh] == i, "published-header-is-built-from-that-heights-block")
		if p := store.VerifStored(pb.eh.Height()); p != nil {
			nd.Assert(p.Roots == pb.eh.DAH, "stored-square-has-the-published-headers-DAH")
		} else {
			// published but not stored: only a pruned node whose block left
			// the window between the two clock readings
			nd.Assert(nd.And(!archival, end-tns[i] > int64(window)), "published-block-is-stored")
		}
	}
	nd.Assert(perHeight[0] <= 1 && perHeight[1] <= 1, "a-height-is-published-at-most-once")
	for i := 0; i < 2; i++ {
		if perHeight[i] == 0 && store.VerifStored(uint64(f.base+int64(i))) == nil {
			nd.CoverIf(nd.And(!archival, start-tns[i] > int64(window)), "historic")
		}
	}
}
