//verif:overlay store/zz_verif_c15_model.go
//verif:replace (*github.com/celestiaorg/celestia-node/store.Store).HasByHeight github.com/celestiaorg/celestia-node/store.verifHasByHeight
//verif:replace (*github.com/celestiaorg/celestia-node/store.Store).PutODSQ4 github.com/celestiaorg/celestia-node/store.verifPutODSQ4
//verif:replace (*github.com/celestiaorg/celestia-node/store.Store).PutODS github.com/celestiaorg/celestia-node/store.verifPutODS
//verif:replace (*github.com/celestiaorg/celestia-node/store.Store).HasByHash github.com/celestiaorg/celestia-node/store.verifHasByHash
//verif:assume the EDS store is a recording model (height -> roots, square, with/without parity quadrant; lookups and puts may fail): that the real store keeps and serves what it is given is C05/C07
package store

import (
	"bytes"
	"context"
	"errors"

	"github.com/celestiaorg/rsmt2d"

	"github.com/celestiaorg/celestia-node/share"
)

type VerifPut struct {
	Height uint64
	Roots  *share.AxisRoots
	EDS    *rsmt2d.ExtendedDataSquare
	Q4     bool
}

var (
	VerifPuts      []VerifPut
	VerifPutFailed int
	VerifHasFailed int
	VerifFailPut   bool // the next puts fail (set by the harness)
	VerifFailHas   bool // the next lookups fail
)

func VerifReset() {
	VerifPuts, VerifPutFailed, VerifHasFailed, VerifFailPut, VerifFailHas = nil, 0, 0, false, false
}

func VerifStored(h uint64) *VerifPut {
	for i := range VerifPuts {
		if VerifPuts[i].Height == h {
			return &VerifPuts[i]
		}
	}
	return nil
}

func verifHasByHeight(s *Store, ctx context.Context, h uint64) (bool, error) {
	if VerifFailHas {
		VerifHasFailed++
		return false, errors.New("store: lookup failed")
	}
	return VerifStored(h) != nil, nil
}

// a data hash is known to the store when some height holds a square with it
func verifHasByHash(s *Store, ctx context.Context, hash share.DataHash) (bool, error) {
	if VerifFailHas {
		VerifHasFailed++
		return false, errors.New("store: lookup failed")
	}
	for i := range VerifPuts {
		if bytes.Equal(VerifPuts[i].Roots.Hash(), hash) {
			return true, nil
		}
	}
	return false, nil
}

func verifPut(roots *share.AxisRoots, h uint64, sq *rsmt2d.ExtendedDataSquare, q4 bool) error {
	if VerifFailPut {
		VerifPutFailed++
		return errors.New("store: put failed")
	}
	if VerifStored(h) != nil {
		return nil // the real store keeps the first square of a height
	}
	VerifPuts = append(VerifPuts, VerifPut{Height: h, Roots: roots, EDS: sq, Q4: q4})
	return nil
}

func verifPutODSQ4(s *Store, ctx context.Context, roots *share.AxisRoots, h uint64, sq *rsmt2d.ExtendedDataSquare) error {
	return verifPut(roots, h, sq, true)
}

func verifPutODS(s *Store, ctx context.Context, roots *share.AxisRoots, h uint64, sq *rsmt2d.ExtendedDataSquare) error {
	return verifPut(roots, h, sq, false)
}
