//verif:overlay share/availability/light/zz_verif_c03.go
//verif:pkgs path github.com/ipfs/go-datastore ./share ./share/availability ./share/shwap ./libs/utils ./header github.com/celestiaorg/go-square/v4/share github.com/celestiaorg/nmt
//verif:replace github.com/celestiaorg/celestia-node/share/availability/light.randInt github.com/celestiaorg/celestia-node/share/availability/light.verifRandInt
//verif:replace github.com/celestiaorg/celestia-node/share.EmptyEDSDataHash github.com/celestiaorg/celestia-node/share/availability/light.verifEmptyHash
//verif:replace (*github.com/celestiaorg/celestia-app/v9/pkg/da.DataAvailabilityHeader).Hash github.com/celestiaorg/celestia-node/share/availability/light.verifDAHHash
//verif:replace (*github.com/ipfs/go-datastore/autobatch.Datastore).Get github.com/celestiaorg/celestia-node/share/availability/light.verifDsGet
//verif:replace (*github.com/ipfs/go-datastore/autobatch.Datastore).Put github.com/celestiaorg/celestia-node/share/availability/light.verifDsPut
//verif:replace (*github.com/ipfs/go-datastore/autobatch.Datastore).Flush github.com/celestiaorg/celestia-node/share/availability/light.verifDsFlush
//verif:replace (*github.com/ipfs/go-datastore/autobatch.Datastore).Sync github.com/celestiaorg/celestia-node/share/availability/light.verifDsSync
//verif:replace (*github.com/celestiaorg/celestia-app/v9/pkg/da.DataAvailabilityHeader).String github.com/celestiaorg/celestia-node/share/availability/light.verifDAHString
//verif:replace encoding/json.Marshal github.com/celestiaorg/celestia-node/share/availability/light.verifMarshal
//verif:replace encoding/json.Unmarshal github.com/celestiaorg/celestia-node/share/availability/light.verifUnmarshal
//verif:noop github.com/celestiaorg/celestia-app/v9/pkg/da github.com/ipfs/go-datastore/autobatch
//verif:init github.com/ipfs/go-datastore github.com/celestiaorg/celestia-node/share/availability/light
//verif:bound light availability: square of 2x2 cells (thorough: also 4x4), configured sample amount 2 or 5 (thorough: 1,2,3,5; so both "amount" and "whole square" limits are met), sample coordinates drawn as arbitrary symbolic values below the width; two consecutive checks of the same block, the second on a fresh instance after a graceful shutdown (the real Close, then only what the write buffer handed to the underlying store survives); per check the getter returns nothing, or a full-length result in which any subset of positions is non-empty, with or without an error (incl. context.Canceled); the datastore Put may fail and the datastore Get may fail with an I/O error
//verif:assume the getter hands back only verified samples (C06) and keeps its documented contract (result in request order, empty positions for failures, or no result); crypto/rand is replaced by arbitrary values in range (unpredictability/uniformity is a probabilistic statement outside any solver verdict); JSON encoding of the sampling result is the identity; the datastore is one cell behind a write buffer with autobatch's semantics (Put buffers, Get reads through the buffer, Flush commits everything, Sync(prefix) commits only buffered keys equal to or below the prefix)
//verif:bound concurrent calls (VerifH_C03_ConcurrentCallsForOneBlockAreSerialised): four goroutines on one instance - three checks of the same block and one of another block - through the real utils.Sessions; the first sample fetch of the contended block is held open until every other goroutine is blocked or done; one waiting caller may be cancelled; 2x2 square, amount 2; sample coordinates fixed; schedules within 1 deviation from round-robin
//verif:outside uniform/unpredictable drawing; loss of buffered autobatch writes on an ungraceful crash
package light

import (
	"context"
	"errors"
	"time"

	"github.com/ipfs/go-datastore"
	"github.com/ipfs/go-datastore/autobatch"

	"github.com/celestiaorg/celestia-app/v9/pkg/da"
	libshare "github.com/celestiaorg/go-square/v4/share"
	"github.com/celestiaorg/nmt"
	"github.com/celestiaorg/rsmt2d"

	"github.com/celestiaorg/celestia-node/header"
	"github.com/celestiaorg/celestia-node/libs/utils"
	"github.com/celestiaorg/celestia-node/share"
	"github.com/celestiaorg/celestia-node/share/shwap"
	nd "github.com/celestiaorg/celestia-node/verifnd"
)

var verifDraws, verifMaxDraws int

func verifRandInt(m int) int {
	// bound: at most verifMaxDraws random numbers per selection (longer runs
	// of colliding draws are outside the claim)
	verifDraws++
	if verifKeyed {
		// concurrent harness: the coordinates are not its subject - a fixed
		// sequence that yields distinct cells
		return []int{0, 0, 1, 1, 0, 1, 1, 0}[(verifDraws-1)%8] % m
	}
	nd.Assume(verifDraws <= verifMaxDraws)
	v := nd.Int("rand")
	nd.Assume(v >= 0 && v < m)
	return v
}

func verifEmptyHash() share.DataHash { return make([]byte, 32) }

func verifDAHHash(d *da.DataAvailabilityHeader) []byte {
	h := make([]byte, 32)
	h[0] = 7
	return h
}

// ---- datastore cell + JSON identity ------------------------------------------

var (
	verifCell                       *SamplingResult // value the instance sees: buffered write, else the durable one (nil = not found)
	verifDurable                    *SamplingResult // what the underlying store holds: survives a restart
	verifDirty                      bool            // the buffer holds a write the underlying store has not seen
	verifBufKey                     datastore.Key   // key of the buffered write
	verifPutFails                   bool
	verifPuts                       int
	verifBlobs                      []*SamplingResult
	verifGetFaults, verifGetFaulted bool                       // the datastore read may fail with an I/O error
	verifKeyed                      bool                       // concurrent harness: one cell per key, no write buffer
	verifCells                      map[string]*SamplingResult // key -> stored result
)

func verifCopy(r *SamplingResult) *SamplingResult {
	return &SamplingResult{
		Available: append([]shwap.SampleCoords(nil), r.Available...),
		Remaining: append([]shwap.SampleCoords(nil), r.Remaining...),
	}
}

func verifMarshal(v any) ([]byte, error) {
	r, ok := v.(*SamplingResult)
	if !ok {
		return nil, errors.New("stub json: unexpected type")
	}
	verifBlobs = append(verifBlobs, verifCopy(r))
	return []byte{byte(len(verifBlobs) - 1)}, nil
}

func verifUnmarshal(data []byte, v any) error {
	r, ok := v.(*SamplingResult)
	if !ok || len(data) != 1 || int(data[0]) >= len(verifBlobs) {
		return errors.New("stub json: bad input")
	}
	*r = *verifCopy(verifBlobs[data[0]])
	return nil
}

func verifDAHString(d *da.DataAvailabilityHeader) string {
	if len(d.RowRoots) > 0 && len(d.RowRoots[0]) > 0 && d.RowRoots[0][0] == 1 {
		return "OTHER"
	}
	return "BLOCK"
}

func verifDsGet(d *autobatch.Datastore, ctx context.Context, k datastore.Key) ([]byte, error) {
	if verifKeyed {
		c := verifCells[k.String()]
		if c == nil {
			return nil, datastore.ErrNotFound
		}
		return verifMarshal(c)
	}
	if verifGetFaults && nd.Choice(2, "getFault") == 1 {
		// a read fault is not "never checked"
		verifGetFaulted = true
		return nil, errors.New("datastore: read failed")
	}
	if verifCell == nil {
		return nil, datastore.ErrNotFound
	}
	return verifMarshal(verifCell)
}

func verifDsPut(d *autobatch.Datastore, ctx context.Context, k datastore.Key, val []byte) error {
	if verifPutFails {
		return errors.New("datastore: put failed")
	}
	var r SamplingResult
	if err := verifUnmarshal(val, &r); err != nil {
		return err
	}
	if verifKeyed {
		verifCells[k.String()] = &r
		verifPuts++
		return nil
	}
	verifCell = &r
	verifDirty, verifBufKey = true, k
	verifPuts++
	return nil
}

// autobatch.Flush: every buffered write reaches the underlying store
func verifDsFlush(d *autobatch.Datastore, ctx context.Context) error {
	verifDurable, verifDirty = verifCell, false
	return nil
}

// autobatch.Sync: only buffered keys equal to or below the prefix are committed
func verifDsSync(d *autobatch.Datastore, ctx context.Context, prefix datastore.Key) error {
	if verifDirty && (verifBufKey.Equal(prefix) || verifBufKey.IsDescendantOf(prefix)) {
		verifDurable, verifDirty = verifCell, false
	}
	return nil
}

// ---- getter --------------------------------------------------------------------

type verifGetter struct {
	shwap.Getter
	requested [][]shwap.SampleCoords
	returned  []shwap.SampleCoords // coordinates handed back non-empty (verified, this root)
}

func (g *verifGetter) GetSamples(ctx context.Context, h *header.ExtendedHeader, idx []shwap.SampleCoords) ([]shwap.Sample, error) {
	g.requested = append(g.requested, append([]shwap.SampleCoords(nil), idx...))
	var err error
	switch nd.Choice(3, "getErr") {
	case 1:
		err = errors.New("some requests failed")
	case 2:
		err = context.Canceled
	}
	// "nothing at all": no result, with an error - or without one (no getter in
	// the repository does the latter, the interface does not forbid it)
	if nd.Choice(2, "noResult") == 1 {
		return nil, err
	}
	out := make([]shwap.Sample, len(idx))
	for i := range out {
		if nd.Choice(2, "got") == 1 {
			raw := make([]byte, libshare.ShareSize)
			copy(raw, libshare.MustNewV0Namespace([]byte("c03")).Bytes())
			sh, _ := libshare.NewShare(raw)
			p := nmt.NewInclusionProof(0, 1, nil, true)
			out[i] = shwap.Sample{Share: sh, Proof: &p, ProofType: rsmt2d.Row}
			g.returned = append(g.returned, idx[i])
		} else if err == nil {
			err = errors.New("some requests failed")
		}
	}
	return out, err
}

func verifHas(l []shwap.SampleCoords, c shwap.SampleCoords) bool {
	for _, x := range l {
		if x == c {
			return true
		}
	}
	return false
}

func verifNewLA(g *verifGetter, amount uint) *ShareAvailability {
	return &ShareAvailability{getter: g, params: Parameters{SampleAmount: amount}, samplingWindow: 1 << 62, activeHeights: utils.NewSessions()}
}

// A block is reported available only after min(amount, width^2) distinct
// in-square coordinates were each handed back by the getter; what was not
// retrieved stays pending - as the same coordinates - across failed, partial
// and cancelled attempts and across a restart.
//
//verif:opts nopanic nodeadlock noreplay maxwall=1500 cover=available,pending,restartdone,read-fault
func VerifH_C03_AvailableOnlyAfterAllSamples() {
	// quick: 2x2 square with amount 2 (below the square) or 5 (above it);
	// thorough adds the 4x4 square and amount 3
	width := 2
	amounts := []uint{2, 5}
	if nd.Thorough() {
		width = 2 << nd.Choice(2, "widthLog")
		amounts = []uint{1, 2, 3, 5}
	}
	amount := amounts[nd.Choice(len(amounts), "amount")]
	need := int(amount)
	if width*width < need {
		need = width * width
	}
	roots := make([][]byte, width)
	for i := range roots {
		roots[i] = make([]byte, 90)
	}
	eh := &header.ExtendedHeader{DAH: &da.DataAvailabilityHeader{RowRoots: roots, ColumnRoots: roots}}
	eh.RawHeader.Height = 9
	eh.RawHeader.Time = time.Now()
	verifCell, verifPuts, verifBlobs = nil, 0, nil
	verifDurable, verifDirty = nil, false
	// the package's own initialisers ran in the engine (a silently empty prefix
	// would make every Sync look like a Flush): otherwise no path survives
	// and the cover goals make the check inconclusive
	nd.Assume(samplingResultsPrefix.String() != "")
	verifDraws, verifMaxDraws = 0, 2*(need+1)
	g := &verifGetter{}

	var pendingBefore []shwap.SampleCoords
	for round := 0; round < 2; round++ {
		la := verifNewLA(g, amount) // a fresh instance each round: restart over the same cell
		verifPutFails = nd.Choice(2, "putFails") == 1
		before := verifCell
		nReq := len(g.requested)
		verifGetFaults, verifGetFaulted = true, false
		err := la.SharesAvailable(context.Background(), eh)
		verifGetFaults = false
		if verifGetFaulted {
			// a failing read of the persisted result is an error, not "this block
			// was never checked": nothing is drawn anew, requested or overwritten
			nd.Cover("read-fault")
			nd.Assert(err != nil, "a-read-fault-is-not-availability")
			nd.Assert(len(g.requested) == nReq, "a-read-fault-draws-no-new-sample-set")
			nd.Assert(verifCell == before, "a-read-fault-leaves-the-persisted-result-alone")
		}

		if before != nil && len(g.requested) > nReq {
			// a retry asks for exactly the coordinates that were pending
			req := g.requested[len(g.requested)-1]
			nd.Assert(len(req) == len(pendingBefore), "retry-requests-exactly-the-pending-coordinates")
			for _, c := range req {
				nd.Assert(verifHas(pendingBefore, c), "retry-requests-exactly-the-pending-coordinates")
			}
		}
		if verifCell != nil {
			r := verifCell
			nd.Assert(len(r.Available)+len(r.Remaining) == need, "sample-set-keeps-its-size")
			for i, c := range r.Available {
				nd.Assert(c.Row >= 0 && c.Row < width && c.Col >= 0 && c.Col < width, "in-square")
				nd.Assert(verifHas(g.returned, c), "only-retrieved-coordinates-count-as-sampled")
				for j := 0; j < i; j++ {
					nd.Assert(r.Available[j] != c, "distinct-coordinates")
				}
				nd.Assert(!verifHas(r.Remaining, c), "sampled-and-pending-are-disjoint")
			}
			for i, c := range r.Remaining {
				nd.Assert(c.Row >= 0 && c.Row < width && c.Col >= 0 && c.Col < width, "in-square")
				for j := 0; j < i; j++ {
					nd.Assert(r.Remaining[j] != c, "distinct-coordinates")
				}
			}
			pendingBefore = append([]shwap.SampleCoords(nil), r.Remaining...)
		}
		if err == nil {
			nd.Cover("available")
			if round == 1 {
				nd.Cover("restartdone")
			}
			nd.Assert(verifCell != nil, "result-persisted-before-success")
			nd.Assert(len(verifCell.Remaining) == 0 && len(verifCell.Available) == need, "available-only-after-the-whole-sample-set")
		} else if verifCell != nil && len(verifCell.Remaining) > 0 {
			nd.Cover("pending")
		}
		// graceful shutdown: the real Close, after which only what reached the
		// underlying store is left for the next instance
		if cerr := la.Close(context.Background()); cerr == nil {
			nd.Assert(!verifDirty, "close-persists-the-buffered-sampling-result")
		}
		verifCell, verifDirty = verifDurable, false
	}
}

// ---- concurrent calls ------------------------------------------------------------

// verifGatedGetter holds the first fetch for the contended block open until the
// harness opens the gate, and records overlapping fetches per height.
type verifGatedGetter struct {
	verifGetter
	gate            chan struct{}
	gated           bool
	inFlight        map[uint64]int
	calls           map[uint64]int
	retried         bool
	firstGotNothing bool
}

func (g *verifGatedGetter) GetSamples(ctx context.Context, h *header.ExtendedHeader, idx []shwap.SampleCoords) ([]shwap.Sample, error) {
	ht := h.Height()
	g.inFlight[ht]++
	g.calls[ht]++
	nd.Assert(g.inFlight[ht] == 1, "checks-of-one-block-never-overlap")
	if r := verifCells[datastoreKeyForRoot(h.DAH).String()]; r != nil {
		// a result is persisted: this fetch asks for exactly its pending coordinates
		nd.Assert(len(idx) == len(r.Remaining), "retry-requests-exactly-the-pending-coordinates")
		for _, c := range idx {
			nd.Assert(verifHas(r.Remaining, c), "retry-requests-exactly-the-pending-coordinates")
		}
		g.retried = true
	}
	if ht == 9 && !g.gated {
		g.gated = true
		<-g.gate
	} else if ht == 9 {
		nd.Yield() // a fetch takes time: anybody who may run does
	}
	var out []shwap.Sample
	var err error
	if ht == 9 {
		g.requested = append(g.requested, append([]shwap.SampleCoords(nil), idx...))
		// outcomes: nothing at all / everything / only the first coordinate / cancelled with nothing retrieved
		oc := nd.Choice(4, "outcome")
		if oc != 0 {
			out = make([]shwap.Sample, len(idx))
		}
		for i := range out {
			if oc == 1 || (oc == 2 && i == 0) {
				raw := make([]byte, libshare.ShareSize)
				copy(raw, libshare.MustNewV0Namespace([]byte("c03")).Bytes())
				sh, _ := libshare.NewShare(raw)
				p := nmt.NewInclusionProof(0, 1, nil, true)
				out[i] = shwap.Sample{Share: sh, Proof: &p, ProofType: rsmt2d.Row}
				g.returned = append(g.returned, idx[i])
			}
		}
		switch {
		case oc == 3:
			err = context.Canceled
		case oc == 0 || (oc == 2 && len(idx) > 1):
			err = errors.New("some requests failed")
		}
		if g.calls[ht] == 1 {
			g.firstGotNothing = len(out) == 0
		}
	} else {
		// the other block is simply served
		out = make([]shwap.Sample, len(idx))
		for i := range out {
			raw := make([]byte, libshare.ShareSize)
			copy(raw, libshare.MustNewV0Namespace([]byte("c03")).Bytes())
			sh, _ := libshare.NewShare(raw)
			p := nmt.NewInclusionProof(0, 1, nil, true)
			out[i] = shwap.Sample{Share: sh, Proof: &p, ProofType: rsmt2d.Row}
			g.returned = append(g.returned, idx[i])
		}
	}
	g.inFlight[ht]--
	return out, err
}

func verifCheckCell(r *SamplingResult, g *verifGetter, need, width int) {
	nd.Assert(len(r.Available)+len(r.Remaining) == need, "sample-set-keeps-its-size")
	for i, c := range r.Available {
		nd.Assert(c.Row >= 0 && c.Row < width && c.Col >= 0 && c.Col < width, "in-square")
		nd.Assert(verifHas(g.returned, c), "only-retrieved-coordinates-count-as-sampled")
		for j := 0; j < i; j++ {
			nd.Assert(r.Available[j] != c, "distinct-coordinates")
		}
		nd.Assert(!verifHas(r.Remaining, c), "sampled-and-pending-are-disjoint")
	}
}

// Three concurrent checks of one block and a check of another block on the same
// instance: the checks of one block are serialised (the second one waits,
// then works on what the first one persisted and asks for exactly its pending
// coordinates), a check of another block is not held up by them, a waiting
// caller honours cancellation, nobody hangs, and the persisted result keeps
// every guarantee of the sequential case.
//
//verif:opts nopanic nodeadlock noreplay preempt=1 threads=8 maxwall=600 cover=serialised,second-retried,second-found-it-done,waiter-cancelled,other-block-not-held-up
func VerifH_C03_ConcurrentCallsForOneBlockAreSerialised() {
	const width, need = 2, 2
	mk := func(height int64, tag byte) *header.ExtendedHeader {
		roots := make([][]byte, width)
		for i := range roots {
			roots[i] = make([]byte, 90)
		}
		roots[0][0] = tag
		eh := &header.ExtendedHeader{DAH: &da.DataAvailabilityHeader{RowRoots: roots, ColumnRoots: roots}}
		eh.RawHeader.Height = height
		eh.RawHeader.Time = time.Now()
		return eh
	}
	eh, other := mk(9, 0), mk(10, 1)
	verifKeyed, verifCells, verifBlobs, verifPuts, verifPutFails = true, map[string]*SamplingResult{}, nil, 0, false
	nd.Assume(samplingResultsPrefix.String() != "")
	verifDraws, verifMaxDraws = 0, 4*(need+1)
	g := &verifGatedGetter{gate: make(chan struct{}), inFlight: map[uint64]int{}, calls: map[uint64]int{}}
	la := verifNewLA(&g.verifGetter, need)
	la.getter = g

	var errs [4]error
	var fin [4]bool
	done := make(chan int, 4)
	ctx2, cancel2 := context.WithCancel(context.Background())
	defer cancel2()
	go func() { errs[0] = la.SharesAvailable(context.Background(), eh); fin[0] = true; done <- 0 }()
	go func() { errs[1] = la.SharesAvailable(ctx2, eh); fin[1] = true; done <- 1 }()
	go func() { errs[2] = la.SharesAvailable(context.Background(), other); fin[2] = true; done <- 2 }()
	go func() { errs[3] = la.SharesAvailable(context.Background(), eh); fin[3] = true; done <- 3 }()

	nd.RunOthers() // one check of block 9 sits in its fetch, the other waits for it
	nd.Assert(g.gated && g.calls[9] == 1, "second-check-waits-for-the-first")
	nd.Assert(!fin[0] && !fin[1] && !fin[3], "second-check-waits-for-the-first")
	nd.Assert(fin[2], "a-check-of-another-block-is-not-held-up")
	nd.Cover("other-block-not-held-up")
	cancelled := nd.Choice(2, "cancelWaiter") == 1
	if cancelled {
		cancel2()
		nd.RunOthers()
	}
	close(g.gate)
	<-done
	<-done
	<-done
	<-done
	nd.Assert(fin[0] && fin[1] && fin[2] && fin[3], "every-call-returns")
	nd.Cover("serialised")

	key9 := datastoreKeyForRoot(eh.DAH).String()
	nd.Assert(key9 != datastoreKeyForRoot(other.DAH).String(), "model: distinct blocks have distinct keys")
	for _, k := range []string{key9, datastoreKeyForRoot(other.DAH).String()} {
		if r := verifCells[k]; r != nil {
			verifCheckCell(r, &g.verifGetter, need, width)
		}
	}
	r9 := verifCells[key9]
	for _, i := range []int{0, 1, 3} {
		if errs[i] == nil {
			nd.Assert(r9 != nil && len(r9.Remaining) == 0 && len(r9.Available) == need, "available-only-after-the-whole-sample-set")
		}
	}
	if g.calls[9] >= 2 {
		// (a first check whose fetch returned nothing at all persists nothing)
		nd.Assert(g.retried || g.firstGotNothing, "second-check-works-on-the-persisted-result")
		nd.Cover("second-retried")
	} else if errs[0] == nil && errs[1] == nil && errs[3] == nil {
		nd.Cover("second-found-it-done")
	}
	if cancelled && (errors.Is(errs[0], context.Canceled) || errors.Is(errs[1], context.Canceled)) {
		nd.Cover("waiter-cancelled")
	}
	verifKeyed = false
}
