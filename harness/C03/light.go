//verif:overlay share/availability/light/zz_verif_c03.go
//verif:pkgs path github.com/ipfs/go-datastore ./share ./share/availability ./share/shwap ./libs/utils ./header github.com/celestiaorg/go-square/v4/share github.com/celestiaorg/nmt
//verif:replace github.com/celestiaorg/celestia-node/share/availability/light.randInt github.com/celestiaorg/celestia-node/share/availability/light.verifRandInt
//verif:replace github.com/celestiaorg/celestia-node/share.EmptyEDSDataHash github.com/celestiaorg/celestia-node/share/availability/light.verifEmptyHash
//verif:replace (*github.com/celestiaorg/celestia-app/v9/pkg/da.DataAvailabilityHeader).Hash github.com/celestiaorg/celestia-node/share/availability/light.verifDAHHash
//verif:replace (*github.com/ipfs/go-datastore/autobatch.Datastore).Get github.com/celestiaorg/celestia-node/share/availability/light.verifDsGet
//verif:replace (*github.com/ipfs/go-datastore/autobatch.Datastore).Put github.com/celestiaorg/celestia-node/share/availability/light.verifDsPut
//verif:replace (*github.com/ipfs/go-datastore/autobatch.Datastore).Flush github.com/celestiaorg/celestia-node/share/availability/light.verifDsFlush
//verif:replace (*github.com/ipfs/go-datastore/autobatch.Datastore).Sync github.com/celestiaorg/celestia-node/share/availability/light.verifDsSync
//verif:replace encoding/json.Marshal github.com/celestiaorg/celestia-node/share/availability/light.verifMarshal
//verif:replace encoding/json.Unmarshal github.com/celestiaorg/celestia-node/share/availability/light.verifUnmarshal
//verif:noop github.com/celestiaorg/celestia-app/v9/pkg/da github.com/ipfs/go-datastore/autobatch
//verif:init github.com/ipfs/go-datastore github.com/celestiaorg/celestia-node/share/availability/light
//verif:bound light availability: square of 2x2 cells (thorough: also 4x4), configured sample amount 2 or 5 (thorough: 1,2,3,5; so both "amount" and "whole square" limits are met), sample coordinates drawn as arbitrary symbolic values below the width; two consecutive checks of the same block, the second on a fresh instance after a graceful shutdown (the real Close, then only what the write buffer handed to the underlying store survives); per check the getter returns nothing, or a full-length result in which any subset of positions is non-empty, with or without an error (incl. context.Canceled); the datastore Put may fail
//verif:assume the getter hands back only verified samples (C06) and keeps its documented contract (result in request order, empty positions for failures, or no result); crypto/rand is replaced by arbitrary values in range (unpredictability/uniformity is a probabilistic statement outside any solver verdict); JSON encoding of the sampling result is the identity; the datastore is one cell behind a write buffer with autobatch's semantics (Put buffers, Get reads through the buffer, Flush commits everything, Sync(prefix) commits only buffered keys equal to or below the prefix)
//verif:outside uniform/unpredictable drawing; loss of buffered autobatch writes on an ungraceful crash; concurrent calls for the same height (utils.Sessions)
package light

import (
	"context"
	"errors"
	"time"

	"github.com/ipfs/go-datastore"
	"github.com/ipfs/go-datastore/autobatch"

	"github.com/celestiaorg/celestia-app/v9/pkg/da"
	libshare "github.com/celestiaorg/go-square/v4/share"
	"github.com/celestiaorg/nmt"
	"github.com/celestiaorg/rsmt2d"

	"github.com/celestiaorg/celestia-node/header"
	"github.com/celestiaorg/celestia-node/libs/utils"
	"github.com/celestiaorg/celestia-node/share"
	"github.com/celestiaorg/celestia-node/share/shwap"
	nd "github.com/celestiaorg/celestia-node/verifnd"
)

var verifDraws, verifMaxDraws int

func verifRandInt(m int) int {
	// bound: at most verifMaxDraws random numbers per selection (longer runs
	// of colliding draws are outside the claim)
	verifDraws++
	nd.Assume(verifDraws <= verifMaxDraws)
	v := nd.Int("rand")
	nd.Assume(v >= 0 && v < m)
	return v
}

func verifEmptyHash() share.DataHash { return make([]byte, 32) }

func verifDAHHash(d *da.DataAvailabilityHeader) []byte {
	h := make([]byte, 32)
	h[0] = 7
	return h
}

// ---- datastore cell + JSON identity ------------------------------------------

var (
	verifCell     *SamplingResult // value the instance sees: buffered write, else the durable one (nil = not found)
	verifDurable  *SamplingResult // what the underlying store holds: survives a restart
	verifDirty    bool            // the buffer holds a write the underlying store has not seen
	verifBufKey   datastore.Key   // key of the buffered write
	verifPutFails bool
	verifPuts     int
	verifBlobs    []*SamplingResult
)

func verifCopy(r *SamplingResult) *SamplingResult {
	return &SamplingResult{
		Available: append([]shwap.SampleCoords(nil), r.Available...),
		Remaining: append([]shwap.SampleCoords(nil), r.Remaining...),
	}
}

func verifMarshal(v any) ([]byte, error) {
	r, ok := v.(*SamplingResult)
	if !ok {
		return nil, errors.New("stub json: unexpected type")
	}
	verifBlobs = append(verifBlobs, verifCopy(r))
	return []byte{byte(len(verifBlobs) - 1)}, nil
}

func verifUnmarshal(data []byte, v any) error {
	r, ok := v.(*SamplingResult)
	if !ok || len(data) != 1 || int(data[0]) >= len(verifBlobs) {
		return errors.New("stub json: bad input")
	}
	*r = *verifCopy(verifBlobs[data[0]])
	return nil
}

func verifDsGet(d *autobatch.Datastore, ctx context.Context, k datastore.Key) ([]byte, error) {
	if verifCell == nil {
		return nil, datastore.ErrNotFound
	}
	return verifMarshal(verifCell)
}

func verifDsPut(d *autobatch.Datastore, ctx context.Context, k datastore.Key, val []byte) error {
	if verifPutFails {
		return errors.New("datastore: put failed")
	}
	var r SamplingResult
	if err := verifUnmarshal(val, &r); err != nil {
		return err
	}
	verifCell = &r
	verifDirty, verifBufKey = true, k
	verifPuts++
	return nil
}

// autobatch.Flush: every buffered write reaches the underlying store
func verifDsFlush(d *autobatch.Datastore, ctx context.Context) error {
	verifDurable, verifDirty = verifCell, false
	return nil
}

// autobatch.Sync: only buffered keys equal to or below the prefix are committed
func verifDsSync(d *autobatch.Datastore, ctx context.Context, prefix datastore.Key) error {
	if verifDirty && (verifBufKey.Equal(prefix) || verifBufKey.IsDescendantOf(prefix)) {
		verifDurable, verifDirty = verifCell, false
	}
	return nil
}

// ---- getter --------------------------------------------------------------------

type verifGetter struct {
	shwap.Getter
	requested [][]shwap.SampleCoords
	returned  []shwap.SampleCoords // coordinates handed back non-empty (verified, this root)
}

func (g *verifGetter) GetSamples(ctx context.Context, h *header.ExtendedHeader, idx []shwap.SampleCoords) ([]shwap.Sample, error) {
	g.requested = append(g.requested, append([]shwap.SampleCoords(nil), idx...))
	var err error
	switch nd.Choice(3, "getErr") {
	case 1:
		err = errors.New("some requests failed")
	case 2:
		err = context.Canceled
	}
	// "nothing at all": no result, with an error - or without one (no getter in
	// the repository does the latter, the interface does not forbid it)
	if nd.Choice(2, "noResult") == 1 {
		return nil, err
	}
	out := make([]shwap.Sample, len(idx))
	for i := range out {
		if nd.Choice(2, "got") == 1 {
			raw := make([]byte, libshare.ShareSize)
			copy(raw, libshare.MustNewV0Namespace([]byte("c03")).Bytes())
			sh, _ := libshare.NewShare(raw)
			p := nmt.NewInclusionProof(0, 1, nil, true)
			out[i] = shwap.Sample{Share: sh, Proof: &p, ProofType: rsmt2d.Row}
			g.returned = append(g.returned, idx[i])
		} else if err == nil {
			err = errors.New("some requests failed")
		}
	}
	return out, err
}

func verifHas(l []shwap.SampleCoords, c shwap.SampleCoords) bool {
	for _, x := range l {
		if x == c {
			return true
		}
	}
	return false
}

func verifNewLA(g *verifGetter, amount uint) *ShareAvailability {
	return &ShareAvailability{getter: g, params: Parameters{SampleAmount: amount}, samplingWindow: 1 << 62, activeHeights: utils.NewSessions()}
}

// A block is reported available only after min(amount, width^2) distinct
// in-square coordinates were each handed back by the getter; what was not
// retrieved stays pending - as the same coordinates - across failed, partial
// and cancelled attempts and across a restart.
//
//verif:opts nopanic nodeadlock noreplay maxwall=1500 cover=available,pending,restartdone
func VerifH_C03_AvailableOnlyAfterAllSamples() {
	// quick: 2x2 square with amount 2 (below the square) or 5 (above it);
	// thorough adds the 4x4 square and amount 3
	width := 2
	amounts := []uint{2, 5}
	if nd.Thorough() {
		width = 2 << nd.Choice(2, "widthLog")
		amounts = []uint{1, 2, 3, 5}
	}
	amount := amounts[nd.Choice(len(amounts), "amount")]
	need := int(amount)
	if width*width < need {
		need = width * width
	}
	roots := make([][]byte, width)
	for i := range roots {
		roots[i] = make([]byte, 90)
	}
	eh := &header.ExtendedHeader{DAH: &da.DataAvailabilityHeader{RowRoots: roots, ColumnRoots: roots}}
	eh.RawHeader.Height = 9
	eh.RawHeader.Time = time.Now()
	verifCell, verifPuts, verifBlobs = nil, 0, nil
	verifDurable, verifDirty = nil, false
	// the package's own initialisers ran in the engine (a silently empty prefix
	// would make every Sync look like a Flush): otherwise no path survives
	// and the cover goals make the check inconclusive
	nd.Assume(samplingResultsPrefix.String() != "")
	verifDraws, verifMaxDraws = 0, 2*(need+1)
	g := &verifGetter{}

	var pendingBefore []shwap.SampleCoords
	for round := 0; round < 2; round++ {
		la := verifNewLA(g, amount) // a fresh instance each round: restart over the same cell
		verifPutFails = nd.Choice(2, "putFails") == 1
		before := verifCell
		nReq := len(g.requested)
		err := la.SharesAvailable(context.Background(), eh)

		if before != nil && len(g.requested) > nReq {
			// a retry asks for exactly the coordinates that were pending
			req := g.requested[len(g.requested)-1]
			nd.Assert(len(req) == len(pendingBefore), "retry-requests-exactly-the-pending-coordinates")
			for _, c := range req {
				nd.Assert(verifHas(pendingBefore, c), "retry-requests-exactly-the-pending-coordinates")
			}
		}
		if verifCell != nil {
			r := verifCell
			nd.Assert(len(r.Available)+len(r.Remaining) == need, "sample-set-keeps-its-size")
			for i, c := range r.Available {
				nd.Assert(c.Row >= 0 && c.Row < width && c.Col >= 0 && c.Col < width, "in-square")
				nd.Assert(verifHas(g.returned, c), "only-retrieved-coordinates-count-as-sampled")
				for j := 0; j < i; j++ {
					nd.Assert(r.Available[j] != c, "distinct-coordinates")
				}
				nd.Assert(!verifHas(r.Remaining, c), "sampled-and-pending-are-disjoint")
			}
			for i, c := range r.Remaining {
				nd.Assert(c.Row >= 0 && c.Row < width && c.Col >= 0 && c.Col < width, "in-square")
				for j := 0; j < i; j++ {
					nd.Assert(r.Remaining[j] != c, "distinct-coordinates")
				}
			}
			pendingBefore = append([]shwap.SampleCoords(nil), r.Remaining...)
		}
		if err == nil {
			nd.Cover("available")
			if round == 1 {
				nd.Cover("restartdone")
			}
			nd.Assert(verifCell != nil, "result-persisted-before-success")
			nd.Assert(len(verifCell.Remaining) == 0 && len(verifCell.Available) == need, "available-only-after-the-whole-sample-set")
		} else if verifCell != nil && len(verifCell.Remaining) > 0 {
			nd.Cover("pending")
		}
		// graceful shutdown: the real Close, after which only what reached the
		// underlying store is left for the next instance
		if cerr := la.Close(context.Background()); cerr == nil {
			nd.Assert(!verifDirty, "close-persists-the-buffered-sampling-result")
		}
		verifCell, verifDirty = verifDurable, false
	}
}
