//verif:overlay nodebuilder/blobstream/zz_verif_c12.go
//verif:pkgs ./header
//verif:replace github.com/cometbft/cometbft/crypto/merkle.ProofsFromByteSlices github.com/celestiaorg/celestia-node/nodebuilder/blobstream.verifStubProofsFromByteSlices
//verif:bound data-root-tuple proofs: height, start, end, local head arbitrary 64-bit values; accepted ranges bounded to at most 3 blocks (list lengths are concrete per path); data hashes 32 symbolic bytes
//verif:assume merkle.ProofsFromByteSlices is replaced by an index-faithful model (proof i has Index=i, Total=n); the header store is an honest model returning exactly the requested consecutive headers
package blobstream

import (
	"context"
	"encoding/binary"
	"errors"

	"github.com/cometbft/cometbft/crypto/merkle"

	libhead "github.com/celestiaorg/go-header"

	"github.com/celestiaorg/celestia-node/header"
	nd "github.com/celestiaorg/celestia-node/verifnd"
)

var verifItems [][]byte

func verifStubProofsFromByteSlices(items [][]byte) ([]byte, []*merkle.Proof) {
	verifItems = items
	proofs := make([]*merkle.Proof, len(items))
	for i := range items {
		proofs[i] = &merkle.Proof{Total: int64(len(items)), Index: int64(i)}
	}
	return []byte{0xaa}, proofs
}

type verifGetter struct {
	head   uint64
	fail   bool
	hashes map[uint64][]byte
}

func (g *verifGetter) mk(h uint64) *header.ExtendedHeader {
	eh := &header.ExtendedHeader{}
	eh.RawHeader.Height = int64(h)
	dh, ok := g.hashes[h]
	if !ok {
		dh = nd.Bytes(32, "datahash")
		g.hashes[h] = dh
	}
	eh.RawHeader.DataHash = dh
	return eh
}

func (g *verifGetter) Head(context.Context, ...libhead.HeadOption[*header.ExtendedHeader]) (*header.ExtendedHeader, error) {
	if g.fail {
		return nil, errors.New("no head")
	}
	return g.mk(g.head), nil
}

func (g *verifGetter) Get(context.Context, libhead.Hash) (*header.ExtendedHeader, error) {
	return nil, errors.New("not used")
}

func (g *verifGetter) GetByHeight(_ context.Context, h uint64) (*header.ExtendedHeader, error) {
	if h == 0 || h > g.head {
		return nil, errors.New("not found")
	}
	return g.mk(h), nil
}

func (g *verifGetter) GetRangeByHeight(_ context.Context, from *header.ExtendedHeader, to uint64) ([]*header.ExtendedHeader, error) {
	var out []*header.ExtendedHeader
	for h := from.Height() + 1; h < to; h++ {
		if h > g.head {
			return nil, errors.New("not found")
		}
		out = append(out, g.mk(h))
	}
	return out, nil
}

// The proof returned for (height, [start,end)) is the proof of leaf
// height-start among exactly end-start leaves, leaf i being the tuple of block
// start+i with its own data hash; invalid requests are errors, not panics.
//
//verif:opts nopanic noreplay cover=served,refused
func VerifH_C12_TupleProof() {
	height, start, end, head := nd.U64("height"), nd.U64("start"), nd.U64("end"), nd.U64("head")
	nd.Assume(start >= end || end-start <= 3)
	// heights up to 2^12 in this harness (the hex formatter forks once per
	// digit; the encoding itself is decided for every 64-bit height by
	// VerifH_C12_TupleEncoding)
	nd.Assume(head < 1<<12)
	g := &verifGetter{head: head, fail: nd.Bool("headFails"), hashes: map[uint64][]byte{}}
	s := &Service{headerGetter: g}
	verifItems = nil
	proof, err := s.GetDataRootTupleInclusionProof(context.Background(), height, start, end)
	valid := start != 0 && start < end && end <= head+1 && start <= height && height < end && !g.fail
	if err != nil {
		nd.Cover("refused")
		nd.Assert(!valid, "valid-request-served")
		return
	}
	nd.Cover("served")
	nd.Assert(valid, "only-valid-requests-served")
	nd.Assert(proof != nil && uint64(proof.Total) == end-start, "proof-over-whole-range")
	nd.Assert(uint64(proof.Index) == height-start, "proof-for-requested-height")
	nd.Assert(uint64(len(verifItems)) == end-start, "one-leaf-per-block")
	for i, it := range verifItems {
		h := start + uint64(i)
		nd.Assert(len(it) == 64, "tuple-size")
		for j := 0; j < 24; j++ {
			nd.Assert(it[j] == 0, "height-left-padded")
		}
		nd.Assert(binary.BigEndian.Uint64(it[24:32]) == h, "height-in-last-8-of-32")
		want := g.hashes[h]
		for j := 0; j < 32; j++ {
			nd.Assert(it[32+j] == want[j], "data-root-of-that-block")
		}
	}
}

// abi-style height encoding on its own, for every 64-bit height.
//
//verif:opts nopanic cover=ran
func VerifH_C12_TupleEncoding() {
	h := nd.U64("height")
	var root [32]byte
	copy(root[:], nd.Bytes(32, "root"))
	b, err := encodeDataRootTuple(h, root)
	nd.Cover("ran")
	nd.Assert(err == nil && len(b) == 64, "encodes")
	for j := 0; j < 24; j++ {
		nd.Assert(b[j] == 0, "height-left-padded")
	}
	nd.Assert(binary.BigEndian.Uint64(b[24:32]) == h, "height-in-last-8-of-32")
	for j := 0; j < 32; j++ {
		nd.Assert(b[32+j] == root[j], "root-kept")
	}
}
