//verif:overlay nodebuilder/share/zz_verif_c12.go
//verif:pkgs github.com/celestiaorg/go-square/v4/share
//verif:replace (github.com/cometbft/cometbft/types.ShareProof).Validate github.com/celestiaorg/celestia-node/nodebuilder/share.verifStubShareProofValidate
//verif:bound GetRangeResult.Verify: 0..2 result shares (512 symbolic bytes each), proof absent or with 0..3 data entries of 511..513 symbolic bytes
//verif:assume cometbft ShareProof.Validate is an ideal verdict: an arbitrary boolean (the library is trusted base; what is checked is that Verify only answers nil when the shares it hands out are exactly the proven data)
package share

import (
	"bytes"
	"errors"

	"github.com/cometbft/cometbft/types"

	libshare "github.com/celestiaorg/go-square/v4/share"

	nd "github.com/celestiaorg/celestia-node/verifnd"
)

var verifValidateCalled int

func verifStubShareProofValidate(sp types.ShareProof, root []byte) error {
	verifValidateCalled++
	if nd.Bool("validate.ok") {
		return nil
	}
	return errors.New("stub: proof does not validate")
}

func arbRangeResult() *GetRangeResult {
	n := nd.Choice(3, "shares")
	shares := make([]libshare.Share, n)
	for i := range shares {
		sh, err := libshare.NewShare(nd.Bytes(libshare.ShareSize, "share"))
		nd.Assume(err == nil)
		shares[i] = sh
	}
	r := &GetRangeResult{Shares: shares}
	if nd.Choice(2, "proof.nil") == 1 {
		return r
	}
	m := nd.Choice(4, "proof.data")
	data := make([][]byte, m)
	for i := range data {
		data[i] = nd.Bytes(libshare.ShareSize-1+nd.Choice(3, "datalen"), "data")
	}
	r.Proof = &types.ShareProof{Data: data}
	return r
}

// Malformed results (decoded from an RPC peer) are an error, never a panic.
//
//verif:opts nopanic native=1 cover=ran
func VerifH_C12_RangeResultNoPanic() {
	r := arbRangeResult()
	_ = r.Verify([]byte{1})
	nd.Cover("ran")
}

// Verify answers nil only if the shares handed out are byte-for-byte the data
// the proof proves, and the proof validated.
//
//verif:opts noreplay cover=accepted,rejected
func VerifH_C12_RangeResultSound() {
	r := arbRangeResult()
	if r.Proof == nil {
		return // covered by the no-panic harness
	}
	verifValidateCalled = 0
	var err error
	func() {
		defer func() {
			if recover() != nil {
				err = errors.New("panicked")
			}
		}()
		err = r.Verify([]byte{1})
	}()
	if err != nil {
		nd.Cover("rejected")
		return
	}
	nd.Cover("accepted")
	nd.Assert(verifValidateCalled == 1, "proof-validated")
	raw := libshare.ToBytes(r.Shares)
	nd.Assert(len(raw) == len(r.Proof.Data), "same-number-of-shares-as-proven")
	for i := range raw {
		if i < len(r.Proof.Data) {
			nd.Assert(bytes.Equal(raw[i], r.Proof.Data[i]), "shares-equal-proven-data")
		}
	}
}
