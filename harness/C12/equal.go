//verif:overlay blob/zz_verif_c12.go
//verif:pkgs github.com/celestiaorg/nmt github.com/celestiaorg/go-square/v4/share
//verif:init github.com/celestiaorg/celestia-node/blob
//verif:bound Proof.equal: both proofs arbitrary values with 0..2 entries; each entry nil or an nmt.Proof with 0..2 nodes (2 symbolic bytes each), symbolic 64-bit Start/End, leaf hash absent or 2 symbolic bytes
package blob

import (
	"bytes"

	"github.com/celestiaorg/nmt"

	nd "github.com/celestiaorg/celestia-node/verifnd"
)

type refProof struct {
	isNil    bool
	start    int
	end      int
	nodes    [][]byte
	leafHash []byte
}

func arbNmtProof(tag string) (*nmt.Proof, refProof) {
	if nd.Choice(2, tag+".nil") == 1 {
		return nil, refProof{isNil: true}
	}
	n := nd.Choice(3, tag+".nodes")
	nodes := make([][]byte, n)
	for i := range nodes {
		nodes[i] = nd.Bytes(2, tag+".node")
	}
	start, end := nd.Int(tag+".start"), nd.Int(tag+".end")
	if nd.Choice(2, tag+".absence") == 1 {
		lh := nd.Bytes(2, tag+".leaf")
		p := nmt.NewAbsenceProof(start, end, nodes, lh, false)
		return &p, refProof{start: start, end: end, nodes: nodes, leafHash: lh}
	}
	p := nmt.NewInclusionProof(start, end, nodes, false)
	return &p, refProof{start: start, end: end, nodes: nodes}
}

func arbProof(tag string) (Proof, []refProof) {
	n := nd.Choice(3, tag+".len")
	p := make(Proof, n)
	r := make([]refProof, n)
	for i := range p {
		p[i], r[i] = arbNmtProof(tag)
	}
	return p, r
}

func refEqual(a, b []refProof) bool {
	if len(a) != len(b) {
		return false
	}
	for i := range a {
		x, y := a[i], b[i]
		if x.isNil || y.isNil {
			// a nil entry is malformed input: never "equal"
			return false
		}
		if x.start != y.start || x.end != y.end || len(x.nodes) != len(y.nodes) {
			return false
		}
		for j := range x.nodes {
			if !bytes.Equal(x.nodes[j], y.nodes[j]) {
				return false
			}
		}
		if !bytes.Equal(x.leafHash, y.leafHash) {
			return false
		}
	}
	return true
}

// equal answers nil exactly for structurally equal proofs and never panics,
// whatever the two proofs look like (the supplied one comes from an RPC
// client).
//
//verif:opts nopanic cover=equal,different
func VerifH_C12_ProofEqual() {
	p, rp := arbProof("p")
	q, rq := arbProof("q")
	err := p.equal(q)
	want := refEqual(rp, rq)
	if err == nil {
		nd.Cover("equal")
	} else {
		nd.Cover("different")
	}
	nd.Assert((err == nil) == want, "equal-iff-structurally-equal")
}
