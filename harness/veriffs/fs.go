// Package veriffs is the file-system model the store harnesses (C05, C07) run
// the real store/file code against. It states the contract of the os package
// the code relies on and nothing more: a path names an inode (hard links share
// it), an inode is a byte string, an open file is a cursor into an inode that
// stays readable after the path is removed, O_EXCL creation fails on an
// existing path, ReadAt past the end returns the bytes there are and io.EOF.
// Every mutation is one step; a crash can be injected before any step (C07):
// the steps done so far stay, the process state (open handles) is lost.
//
//verif:overlay veriffs/fs.go
//verif:pkgs io/fs
//verif:assume the file system is a model (package veriffs): a path names an inode, hard links share it, an open file is a cursor that survives removal of its path, O_EXCL creation fails on an existing path, ReadAt past the end returns what there is and io.EOF; errors are the fs.Err* sentinels wrapped in *fs.PathError
package veriffs

import (
	"errors"
	"io"
	"io/fs"
	"os"
	"time"
)

type Inode struct {
	Data  []byte
	Nlink int
	Dir   bool
	Sym   string // symlink target (relative to its directory) when non-empty
}

type handle struct {
	ino    *Inode
	pos    int
	closed bool
	name   string
	wr     bool
}

type Crash struct{ Step int }

var (
	Paths   map[string]*Inode
	handles map[*os.File]*handle
	// Steps counts mutations (create, write, link, remove, mkdir); CrashAt < 0: never.
	Steps, CrashAt int
	// FailWriteAt >= 0: the write with this ordinal fails (short write + error)
	Writes, FailWriteAt int
	// FailAt >= 0: the mutation with this number fails once with an I/O error
	// and has no effect; the process lives on (a transient fault, not a crash)
	FailAt         int
	Opened, Closed int
)

func Reset() {
	// the sentinels of packages that are not loaded from source
	fs.ErrExist = errors.New("file already exists")
	fs.ErrNotExist = errors.New("file does not exist")
	fs.ErrClosed = errors.New("file already closed")
	fs.ErrInvalid = errors.New("invalid argument")
	os.ErrExist, os.ErrNotExist, os.ErrClosed, os.ErrInvalid = fs.ErrExist, fs.ErrNotExist, fs.ErrClosed, fs.ErrInvalid
	Paths = map[string]*Inode{}
	handles = map[*os.File]*handle{}
	Steps, CrashAt, Writes, FailWriteAt, Opened, Closed = 0, -1, 0, -1, 0, 0
	FailAt, Failed = -1, false
	Crashed, Torn = false, false
}

// Reboot drops the process state after a crash: handles are gone, files stay.
func Reboot() {
	handles = map[*os.File]*handle{}
	CrashAt, FailWriteAt, FailAt = -1, -1, -1
	Opened, Closed = 0, 0
	Crashed, Torn = false, false
}

// Crashed: the process died before the mutation numbered CrashAt. Goroutines
// cannot all be stopped from here, so from that point on every mutation is
// refused without effect: the disk keeps exactly the effects before the crash,
// whatever clean-up code still runs; Reboot then discards the process state.
// Torn: the crashing step, when it is a write, still persists half its bytes.
var (
	Crashed bool
	Failed  bool // the transient fault of FailAt happened
	Torn    bool
	errDead = errors.New("veriffs: process crashed")
)

func step() bool {
	if Crashed {
		return false
	}
	if CrashAt >= 0 && Steps == CrashAt {
		Crashed = true
		return false
	}
	if FailAt >= 0 && Steps == FailAt {
		FailAt, Failed = -1, true
		Steps++
		return false
	}
	Steps++
	return true
}

func pathErr(op, name string, err error) error { return &fs.PathError{Op: op, Path: name, Err: err} }

func dirOf(name string) string {
	for i := len(name) - 1; i > 0; i-- {
		if name[i] == '/' {
			return name[:i]
		}
	}
	return "."
}

// resolve follows one level of symlink
func resolve(name string) (*Inode, bool) {
	ino, ok := Paths[name]
	if !ok {
		return nil, false
	}
	if ino.Sym != "" {
		t := ino.Sym
		// only "../x" and plain relative targets are used by the store
		d := dirOf(name)
		for len(t) > 3 && t[:3] == "../" {
			t = t[3:]
			d = dirOf(d)
		}
		tgt, ok := Paths[d+"/"+t]
		return tgt, ok
	}
	return ino, true
}

func OpenFile(name string, flag int, perm os.FileMode) (*os.File, error) {
	ino, ok := resolve(name)
	if flag&os.O_CREATE != 0 {
		if ok && flag&os.O_EXCL != 0 {
			return nil, pathErr("open", name, fs.ErrExist)
		}
		if !ok {
			if d, dok := Paths[dirOf(name)]; !dok || !d.Dir {
				return nil, pathErr("open", name, fs.ErrNotExist)
			}
			if !step() {
				return nil, pathErr("open", name, errDead)
			}
			ino = &Inode{Nlink: 1}
			Paths[name] = ino
		}
	} else if !ok {
		return nil, pathErr("open", name, fs.ErrNotExist)
	}
	if flag&os.O_TRUNC != 0 {
		if !step() {
			return nil, pathErr("open", name, errDead)
		}
		ino.Data = nil
	}
	f := new(os.File)
	handles[f] = &handle{ino: ino, name: name, wr: flag&(os.O_WRONLY|os.O_RDWR) != 0}
	Opened++
	return f, nil
}

func Open(name string) (*os.File, error) { return OpenFile(name, os.O_RDONLY, 0) }

func get(f *os.File) (*handle, error) {
	h, ok := handles[f]
	if !ok || h.closed {
		return nil, os.ErrClosed
	}
	return h, nil
}

func Write(f *os.File, b []byte) (int, error) {
	h, err := get(f)
	if err != nil {
		return 0, err
	}
	if !h.wr {
		return 0, pathErr("write", h.name, errors.New("bad file descriptor"))
	}
	n := len(b)
	var werr error
	if FailWriteAt >= 0 && Writes == FailWriteAt {
		n, werr = len(b)/2, pathErr("write", h.name, errors.New("no space left on device"))
	}
	Writes++
	crashingNow := !Crashed && CrashAt >= 0 && Steps == CrashAt
	if !step() {
		if !(Torn && crashingNow) {
			return 0, pathErr("write", h.name, errDead)
		}
		// the torn half of the crashing write reaches the disk
		n, werr = len(b)/2, pathErr("write", h.name, errDead)
	}
	for len(h.ino.Data) < h.pos {
		h.ino.Data = append(h.ino.Data, 0)
	}
	h.ino.Data = append(h.ino.Data[:h.pos], b[:n]...)
	h.pos += n
	return n, werr
}

func ReadAt(f *os.File, b []byte, off int64) (int, error) {
	h, err := get(f)
	if err != nil {
		return 0, err
	}
	if off < 0 {
		return 0, pathErr("readat", h.name, errors.New("negative offset"))
	}
	if int(off) >= len(h.ino.Data) {
		return 0, io.EOF
	}
	n := copy(b, h.ino.Data[off:])
	if n < len(b) {
		return n, io.EOF
	}
	return n, nil
}

func Read(f *os.File, b []byte) (int, error) {
	h, err := get(f)
	if err != nil {
		return 0, err
	}
	if len(b) == 0 {
		return 0, nil
	}
	if h.pos >= len(h.ino.Data) {
		return 0, io.EOF
	}
	n := copy(b, h.ino.Data[h.pos:])
	h.pos += n
	return n, nil
}

func Close(f *os.File) error {
	h, err := get(f)
	if err != nil {
		return err
	}
	h.closed = true
	Closed++
	return nil
}

func Sync(f *os.File) error { return nil }

func Name(f *os.File) string {
	if h, ok := handles[f]; ok {
		return h.name
	}
	return ""
}

type Info struct {
	name string
	size int64
	dir  bool
}

func (i Info) Name() string       { return i.name }
func (i Info) Size() int64        { return i.size }
func (i Info) Mode() fs.FileMode  { return 0o644 }
func (i Info) ModTime() time.Time { return time.Time{} }
func (i Info) IsDir() bool        { return i.dir }
func (i Info) Sys() any           { return nil }

func FStat(f *os.File) (os.FileInfo, error) {
	h, err := get(f)
	if err != nil {
		return nil, err
	}
	return Info{name: h.name, size: int64(len(h.ino.Data))}, nil
}

func Stat(name string) (os.FileInfo, error) {
	ino, ok := resolve(name)
	if !ok {
		return nil, pathErr("stat", name, fs.ErrNotExist)
	}
	return Info{name: name, size: int64(len(ino.Data)), dir: ino.Dir}, nil
}

func Mkdir(name string, perm os.FileMode) error {
	if _, ok := Paths[name]; ok {
		return pathErr("mkdir", name, fs.ErrExist)
	}
	if !step() {
		return pathErr("mkdir", name, errDead)
	}
	Paths[name] = &Inode{Dir: true, Nlink: 1}
	return nil
}

func MkdirAll(name string, perm os.FileMode) error {
	if ino, ok := Paths[name]; ok {
		if ino.Dir {
			return nil
		}
		return pathErr("mkdir", name, errors.New("not a directory"))
	}
	if d := dirOf(name); d != "." && d != name {
		if err := MkdirAll(d, perm); err != nil {
			return err
		}
	}
	if !step() {
		return pathErr("mkdir", name, errDead)
	}
	Paths[name] = &Inode{Dir: true, Nlink: 1}
	return nil
}

func Link(oldname, newname string) error {
	ino, ok := Paths[oldname]
	if !ok {
		return pathErr("link", oldname, fs.ErrNotExist)
	}
	if _, ok := Paths[newname]; ok {
		return pathErr("link", newname, fs.ErrExist)
	}
	if !step() {
		return pathErr("link", newname, errDead)
	}
	ino.Nlink++
	Paths[newname] = ino
	return nil
}

func Symlink(target, newname string) error {
	if _, ok := Paths[newname]; ok {
		return pathErr("symlink", newname, fs.ErrExist)
	}
	if !step() {
		return pathErr("symlink", newname, errDead)
	}
	Paths[newname] = &Inode{Sym: target, Nlink: 1}
	return nil
}

func Remove(name string) error {
	ino, ok := Paths[name]
	if !ok {
		return pathErr("remove", name, fs.ErrNotExist)
	}
	if !step() {
		return pathErr("remove", name, errDead)
	}
	ino.Nlink--
	delete(Paths, name)
	return nil
}

// OpenHandles counts handles that were opened and not closed.
func OpenHandles() int {
	n := 0
	for _, h := range handles {
		if !h.closed {
			n++
		}
	}
	return n
}
