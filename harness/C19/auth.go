//verif:overlay api/rpc/zz_verif_c19.go
//verif:gen permtable api/rpc/zz_verif_c19_table.go rpc
//verif:pkgs github.com/filecoin-project/go-jsonrpc/auth ./api/rpc/perms ./libs/authtoken
//verif:init github.com/celestiaorg/celestia-node/api/rpc/perms
//verif:replace github.com/cristalhq/jwt/v5.Parse github.com/celestiaorg/celestia-node/api/rpc.verifJWTParse
//verif:replace github.com/cristalhq/jwt/v5.ParseNoVerify github.com/celestiaorg/celestia-node/api/rpc.verifJWTParseNoVerify
//verif:replace (*github.com/cristalhq/jwt/v5.Token).Claims github.com/celestiaorg/celestia-node/api/rpc.verifClaims
//verif:replace encoding/json.Unmarshal github.com/celestiaorg/celestia-node/api/rpc.verifUnmarshal
//verif:replace time.Now github.com/celestiaorg/celestia-node/api/rpc.verifNow
//verif:replace github.com/filecoin-project/go-jsonrpc/auth.PermissionedProxy github.com/celestiaorg/celestia-node/api/rpc.verifProxy
//verif:replace (*github.com/filecoin-project/go-jsonrpc.RPCServer).Register github.com/celestiaorg/celestia-node/api/rpc.verifRegister
//verif:replace github.com/celestiaorg/celestia-node/api/rpc.getInternalStruct github.com/celestiaorg/celestia-node/api/rpc.verifInternal
//verif:replace (*github.com/rs/cors.Cors).Handler github.com/celestiaorg/celestia-node/api/rpc.verifCorsHandler
//verif:replace github.com/rs/cors.AllowAll github.com/celestiaorg/celestia-node/api/rpc.verifCorsNew0
//verif:replace github.com/rs/cors.New github.com/celestiaorg/celestia-node/api/rpc.verifCorsNew
//verif:replace (net/http.HandlerFunc).ServeHTTP github.com/celestiaorg/celestia-node/api/rpc.verifHandlerFuncServe
//verif:replace (*net/http.Request).Context github.com/celestiaorg/celestia-node/api/rpc.verifReqContext
//verif:replace (*net/http.Request).WithContext github.com/celestiaorg/celestia-node/api/rpc.verifReqWithContext
//verif:replace (*net/http.Request).FormValue github.com/celestiaorg/celestia-node/api/rpc.verifFormValue
//verif:replace (net/http.Header).Get github.com/celestiaorg/celestia-node/api/rpc.verifHeaderGet
//verif:noop github.com/ipfs/go-log/v2 go.uber.org/zap
//verif:bound two requests with one token on one server: first request to one method per permission level, second to EVERY method, at an arbitrary later instant (symbolic clock), token with arbitrary permissions / expiry / signature verdict
//verif:bound RPC authorisation: EVERY method of every module registered in nodebuilder/rpc/constructors.go (the table of `perm` tags is regenerated from /repo's source on every run) x credential: no token, or a token whose signature check passes or fails, with an ARBITRARY subset of the four permissions and no expiry or an arbitrary 64-bit expiry instant against an arbitrary current instant x authentication enabled/disabled x CORS configuration on/off
//verif:assume go-jsonrpc's reflective PermissionedProxy and method dispatch are a model: a method registered through the proxy is reached iff auth.HasPerm(ctx, defaultPerms, its perm tag) - with the REAL HasPerm/WithPerm/auth.Handler code and the valid/default permission lists the repository passes; a service registered directly is reached unconditionally. jwt.Parse is an ideal verdict (signature valid or not), JSON decoding of the payload is the identity. net/http request plumbing (Header.Get, Context, WithContext) and rs/cors are pass-through models
//verif:outside HMAC/JWT library, JSON decoding, websocket transport, the client side; that a module implementation itself re-checks nothing
package rpc

import (
	"context"
	"errors"
	"net/http"
	"time"

	"github.com/cristalhq/jwt/v5"
	"github.com/filecoin-project/go-jsonrpc"
	"github.com/filecoin-project/go-jsonrpc/auth"
	"github.com/rs/cors"

	"github.com/celestiaorg/celestia-node/api/rpc/perms"
	nd "github.com/celestiaorg/celestia-node/verifnd"
)

// ---- credential world ---------------------------------------------------------

var (
	verifSigOK    bool
	verifAllow    []auth.Permission
	verifExpiry   int64 // 0 = no expiry
	verifNowNs    int64
	verifParsed   int
	verifVerifier jwt.Verifier
)

// the node's verifier: an ideal signature verdict
type verifVer struct{ jwt.Verifier }

func (*verifVer) Algorithm() jwt.Algorithm { return jwt.HS256 }
func (*verifVer) Verify(t *jwt.Token) error {
	if !verifSigOK {
		return errors.New("jwt: signature is not valid")
	}
	return nil
}

// the library's two entry points: decoding only, and decoding + verification
func verifJWTParseNoVerify(raw []byte) (*jwt.Token, error) {
	verifParsed++
	if string(raw) != "the-token" {
		return nil, errors.New("jwt: unexpected token bytes")
	}
	return &jwt.Token{}, nil
}

func verifJWTParse(raw []byte, v jwt.Verifier) (*jwt.Token, error) {
	t, err := verifJWTParseNoVerify(raw)
	if err != nil {
		return nil, err
	}
	if err := v.Verify(t); err != nil {
		return nil, err
	}
	return t, nil
}

func verifClaims(t *jwt.Token) []byte { return []byte("claims") }

func verifUnmarshal(data []byte, v any) error {
	p, ok := v.(*perms.JWTPayload)
	if !ok || string(data) != "claims" {
		return errors.New("stub json: unexpected input")
	}
	p.Allow = append([]auth.Permission(nil), verifAllow...)
	if verifExpiry != 0 {
		p.ExpiresAt = time.Unix(0, verifExpiry)
	}
	return nil
}

func verifNow() time.Time { return time.Unix(0, verifNowNs) }

// ---- go-jsonrpc / net/http models -----------------------------------------------

type verifService struct {
	proxied      bool
	valid, deflt []auth.Permission
}

var (
	verifProxied  map[any]*verifService // out struct -> proxy parameters
	verifServices map[string]*verifService
)

func verifInternal(api any) any { return api }

func verifProxy(validPerms, defaultPerms []auth.Permission, in, out any) {
	verifProxied[out] = &verifService{proxied: true, valid: validPerms, deflt: defaultPerms}
}

func verifRegister(s *jsonrpc.RPCServer, namespace string, handler any) {
	if sv, ok := verifProxied[handler]; ok {
		verifServices[namespace] = sv
		return
	}
	verifServices[namespace] = &verifService{}
}

func verifCorsNew0() *cors.Cors                                  { return &cors.Cors{} }
func verifCorsNew(o cors.Options) *cors.Cors                     { return &cors.Cors{} }
func verifCorsHandler(c *cors.Cors, h http.Handler) http.Handler { return h }

func verifHandlerFuncServe(f http.HandlerFunc, w http.ResponseWriter, r *http.Request) { f(w, r) }

var verifReqCtx map[*http.Request]context.Context

func verifReqContext(r *http.Request) context.Context {
	if c, ok := verifReqCtx[r]; ok {
		return c
	}
	return context.Background()
}

func verifReqWithContext(r *http.Request, ctx context.Context) *http.Request {
	r2 := &http.Request{Header: r.Header}
	verifReqCtx[r2] = ctx
	return r2
}

func verifFormValue(r *http.Request, k string) string { return "" }

func verifHeaderGet(h http.Header, k string) string {
	v := h[k]
	if len(v) == 0 {
		return ""
	}
	return v[0]
}

type verifWriter struct {
	http.ResponseWriter
	status int
}

func (w *verifWriter) WriteHeader(s int) { w.status = s }

// the dispatcher standing in for jsonrpc.RPCServer.ServeHTTP + the proxy
type verifCore struct {
	module  string
	perm    auth.Permission
	reached bool
	served  bool
}

func (c *verifCore) ServeHTTP(w http.ResponseWriter, r *http.Request) {
	c.served = true
	sv := verifServices[c.module]
	if sv == nil {
		return
	}
	if !sv.proxied {
		c.reached = true
		return
	}
	c.reached = auth.HasPerm(r.Context(), sv.deflt, c.perm)
}

type verifAPI struct{ name string }

func verifHas(l []auth.Permission, p auth.Permission) bool {
	for _, x := range l {
		if x == p {
			return true
		}
	}
	return false
}

func verifLevel(p string) int {
	switch p {
	case "public":
		return 0
	case "read":
		return 1
	case "write":
		return 2
	case "admin":
		return 3
	}
	return -1
}

// methods that move funds, submit data, mint or verify credentials, reveal
// node identity or peers, or reconfigure the node: write or admin
var verifSensitive = map[string]bool{
	"state.Transfer": true, "state.SubmitPayForBlob": true, "state.CancelUnbondingDelegation": true,
	"state.BeginRedelegate": true, "state.Undelegate": true, "state.Delegate": true,
	"state.GrantFee": true, "state.RevokeGrantFee": true, "state.WithdrawDelegatorReward": true,
	"blob.Submit":  true,
	"node.AuthNew": true, "node.AuthNewWithExpiry": true, "node.AuthVerify": true, "node.Info": true, "node.LogLevelSet": true,
	"p2p.Info": true, "p2p.Peers": true, "p2p.PeerInfo": true, "p2p.Connect": true, "p2p.ClosePeer": true,
	"p2p.BlockPeer": true, "p2p.UnblockPeer": true, "p2p.ListBlockedPeers": true, "p2p.Protect": true, "p2p.Unprotect": true,
	"p2p.PubSubPeers": true, "p2p.ConnectionState": true,
}

func verifServe(authDisabled, corsOn bool, e verifPermEntry, hasToken bool) (reached, served bool, status int) {
	verifProxied = map[any]*verifService{}
	verifServices = map[string]*verifService{}
	verifReqCtx = map[*http.Request]context.Context{}
	verifVerifier = &verifVer{}
	s := &Server{authDisabled: authDisabled, verifier: verifVerifier}
	s.corsConfig.Enabled = corsOn
	// the real registration path, once per registered module
	mods := map[string]bool{}
	for _, x := range verifPermTable {
		if !mods[x.Module] {
			mods[x.Module] = true
			s.RegisterService(x.Module, &verifAPI{"impl:" + x.Module}, &verifAPI{"api:" + x.Module})
		}
	}
	verifSrv = s
	return verifRequest(s, e, hasToken)
}

var verifSrv *Server

// one more request against an already running server
func verifRequest(s *Server, e verifPermEntry, hasToken bool) (reached, served bool, status int) {
	core := &verifCore{module: e.Module, perm: auth.Permission(e.Perm)}
	h := s.newHandlerStack(core)
	r := &http.Request{Header: http.Header{}}
	if hasToken {
		r.Header["Authorization"] = []string{"Bearer the-token"}
	}
	w := &verifWriter{}
	h.ServeHTTP(w, r)
	return core.reached, core.served, w.status
}

// Every request is judged on its own: after a first request with a token was
// served (or refused), a second request with the SAME token at a later instant,
// for any method, is reachable exactly if the token - at that later instant -
// grants the method's permission. In particular a token that expired between
// the two requests grants nothing, whatever the server remembered.
//
//verif:opts nopanic nodeadlock noreplay cover=expired-in-between,still-valid,never-valid
func VerifH_C19_EveryRequestIsJudgedAfresh() {
	corsOn := nd.Bool("corsOn")
	verifSigOK = nd.Bool("sigOK")
	verifAllow = nil
	for _, p := range []auth.Permission{"public", "read", "write", "admin"} {
		if nd.Choice(2, "allow-"+string(p)) == 1 {
			verifAllow = append(verifAllow, p)
		}
	}
	verifExpiry = 0
	if nd.Choice(2, "hasExpiry") == 1 {
		verifExpiry = nd.I64("expiry")
		nd.Assume(verifExpiry != 0)
	}
	verifNowNs = nd.I64("now1")
	nd.Assume(verifNowNs > 0)
	expired1 := verifExpiry != 0 && verifExpiry < verifNowNs
	// first request: one method per permission level (the level is all the auth path looks at)
	var reps []verifPermEntry
	seen := map[string]bool{}
	for _, x := range verifPermTable {
		if !seen[x.Perm] {
			seen[x.Perm] = true
			reps = append(reps, x)
		}
	}
	e1 := reps[nd.Choice(len(reps), "method1")]
	reached1, _, _ := verifServe(false, corsOn, e1, true)
	nd.Assert(reached1 == (verifSigOK && !expired1 && verifHas(verifAllow, auth.Permission(e1.Perm))), "token-reaches-exactly-the-methods-its-permissions-cover")

	later := nd.I64("now2")
	nd.Assume(later >= verifNowNs)
	verifNowNs = later
	expired2 := verifExpiry != 0 && verifExpiry < verifNowNs
	e2 := verifPermTable[nd.Choice(len(verifPermTable), "method2")]
	reached2, served2, status2 := verifRequest(verifSrv, e2, true)
	switch {
	case !verifSigOK:
		nd.Cover("never-valid")
		nd.Assert(!reached2 && !served2 && status2 == 401, "wrongly-signed-token-grants-nothing")
	case expired2:
		if !expired1 {
			nd.Cover("expired-in-between")
		}
		nd.Assert(!reached2 && !served2 && status2 == 401, "expired-token-grants-nothing-even-after-an-earlier-accepted-request")
	default:
		nd.Cover("still-valid")
		nd.Assert(reached2 == verifHas(verifAllow, auth.Permission(e2.Perm)), "token-reaches-exactly-the-methods-its-permissions-cover")
	}
}

// Every method is reachable exactly by callers whose credential grants the
// permission its tag declares; no token = public only; a token that fails the
// signature check or has expired grants nothing; auth disabled grants all.
//
//verif:opts nopanic nodeadlock noreplay cover=granted,denied,expired,badsig,notoken,authoff
func VerifH_C19_MethodReachableIffPermissionGranted() {
	authDisabled := nd.Bool("authDisabled")
	corsOn := nd.Bool("corsOn")
	hasToken := nd.Bool("hasToken")
	verifSigOK = nd.Bool("sigOK")
	verifAllow = nil
	for _, p := range []auth.Permission{"public", "read", "write", "admin"} {
		if nd.Choice(2, "allow-"+string(p)) == 1 {
			verifAllow = append(verifAllow, p)
		}
	}
	verifExpiry = 0
	if nd.Choice(2, "hasExpiry") == 1 {
		verifExpiry = nd.I64("expiry")
		nd.Assume(verifExpiry != 0)
	}
	verifNowNs = nd.I64("now")
	nd.Assume(verifNowNs > 0)
	expired := verifExpiry != 0 && verifExpiry < verifNowNs

	nd.Assert(len(verifPermTable) > 0, "permission-table-is-not-empty")
	e := verifPermTable[nd.Choice(len(verifPermTable), "method")]
	lvl := verifLevel(e.Perm)
	nd.Assert(lvl >= 0, "every-method-declares-a-known-permission")
	if verifSensitive[e.Module+"."+e.Method] {
		nd.Assert(lvl >= 2, "sensitive-method-requires-write-or-admin")
	}

	reached, served, status := verifServe(authDisabled, corsOn, e, hasToken)

	switch {
	case authDisabled:
		nd.Cover("authoff")
		nd.Assert(reached, "auth-disabled-grants-everything")
	case !hasToken:
		nd.Cover("notoken")
		nd.Assert(reached == (e.Perm == "public"), "no-token-reaches-only-public-methods")
	case !verifSigOK:
		nd.Cover("badsig")
		nd.Assert(!reached && !served && status == 401, "wrongly-signed-token-grants-nothing")
	case expired:
		nd.Cover("expired")
		nd.Assert(!reached && !served && status == 401, "expired-token-grants-nothing")
	default:
		granted := verifHas(verifAllow, auth.Permission(e.Perm))
		if granted {
			nd.Cover("granted")
		} else {
			nd.Cover("denied")
		}
		nd.Assert(reached == granted, "token-reaches-exactly-the-methods-its-permissions-cover")
	}
}

// The permission sets the node hands out are nested: public < read < write < admin.
//
//verif:opts nopanic nodeadlock noreplay
func VerifH_C19_PermissionSetsAreNested() {
	sets := [][]auth.Permission{perms.DefaultPerms, perms.ReadPerms, perms.ReadWritePerms, perms.AllPerms}
	names := []auth.Permission{"public", "read", "write", "admin"}
	for i, s := range sets {
		nd.Assert(len(s) == i+1, "permission-set-size")
		for j, n := range names {
			nd.Assert(verifHas(s, n) == (j <= i), "permission-sets-are-nested")
		}
	}
}
