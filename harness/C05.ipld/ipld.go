//verif:overlay share/eds/zz_verif_c05_ipld.go
//verif:include ../C01/model.go
//verif:pkgs ./share/ipld ./share/shwap ./share github.com/celestiaorg/rsmt2d github.com/ipfs/go-cid github.com/multiformats/go-multihash github.com/multiformats/go-multihash/core github.com/multiformats/go-varint github.com/ipfs/go-block-format golang.org/x/sync/errgroup
//verif:noop runtime github.com/ipfs/go-log/v2 go.uber.org/zap
//verif:replace (*github.com/gammazero/workerpool.WorkerPool).Submit github.com/celestiaorg/celestia-node/share/eds.verifSubmit
//verif:bound proofs served from the proof cache: ODS width 2 (EDS 4x4) whose 4 cells carry namespaces from {A<B<C} in any sorted assignment with symbolic contents, pairwise different within the row read (equal shares would share one NMT leaf node), the row read committed through the real wrapper / nmt code over the ideal hash and codec; the proof-caching accessor over the in-memory square, cache cold or warmed by a half / share read of the same row; sample at EVERY coordinate of the extended square (quick tier: namespace layout A,A,B,C only; thorough: all 15 layouts); row namespace data for every data row and namespaces A, B, C, one between A and B, one below A and one above C
//verif:assume the worker pool of share/ipld runs each submitted task as a goroutine of the cooperative scheduler (round-robin, no preemption inside the walk): interleavings of the tree walk's workers are outside this harness
//verif:bound thorough tier: also ODS width 4 (8-leaf row trees; namespace data over all 15 sorted layouts of a row, samples over the layout A,A,B,C)
//verif:outside trees wider than 8 leaves (quick: 4), the IPLD getters over a real blockservice / Bitswap session
package eds

import (
	"context"
	"errors"

	"github.com/gammazero/workerpool"

	"github.com/celestiaorg/celestia-app/v9/pkg/wrapper"
	libshare "github.com/celestiaorg/go-square/v4/share"
	"github.com/celestiaorg/rsmt2d"

	"github.com/celestiaorg/celestia-node/share"
	"github.com/celestiaorg/celestia-node/share/shwap"
	nd "github.com/celestiaorg/celestia-node/verifnd"
)

func verifSubmit(p *workerpool.WorkerPool, f func()) { go f() }

var (
	verifIpNs0  = libshare.MustNewV0Namespace([]byte("ns-0"))
	verifIpNsA  = libshare.MustNewV0Namespace([]byte("ns-a"))
	verifIpNsAB = libshare.MustNewV0Namespace([]byte("ns-ab"))
	verifIpNsB  = libshare.MustNewV0Namespace([]byte("ns-b"))
	verifIpNsC  = libshare.MustNewV0Namespace([]byte("ns-c"))
	verifIpNsZ  = libshare.MustNewV0Namespace([]byte("ns-z"))
)

// a committed 4x4 EDS whose ODS cells carry sorted namespaces out of {A,B,C}
var verifIpOneLayout bool // quick tier of the sample harness: one namespace layout (A,A,B,C)

var verifIpK = 2 // ODS width (thorough: also 4)

// ODS width for this path: 2, in the thorough tier also 4
func verifIpPickK() int {
	verifIpK = 2
	if nd.Thorough() {
		verifIpK = 2 << nd.Choice(2, "odsLog")
	}
	return verifIpK
}

// a committed 2k x 2k EDS whose ODS cells carry sorted namespaces out of
// {A,B,C}. Width 2: every sorted assignment of the 4 cells. Width 4: every
// sorted assignment of the 4 cells of each row (all rows alike - a row tree
// depends on its own row only).
func verifIpSquare() ([][]libshare.Share, [][]libshare.Namespace, *rsmt2d.ExtendedDataSquare) {
	k := verifIpK
	three := []libshare.Namespace{verifIpNsA, verifIpNsB, verifIpNsC}
	cells := make([][]libshare.Share, 2*k)
	nss := make([][]libshare.Namespace, k)
	for r := range cells {
		cells[r] = make([]libshare.Share, 2*k)
	}
	var rowLayout []int
	if k > 2 {
		low := 0
		for c := 0; c < k; c++ {
			if verifIpOneLayout {
				low = []int{0, 0, 1, 2}[c%4]
			} else {
				low += nd.Choice(3-low, "nsStep")
			}
			rowLayout = append(rowLayout, low)
		}
	}
	low := 0
	for r := 0; r < k; r++ {
		nss[r] = make([]libshare.Namespace, k)
		for c := 0; c < k; c++ {
			if rowLayout != nil {
				low = rowLayout[c]
			} else if verifIpOneLayout {
				low = []int{0, 0, 1, 2}[r*k+c]
			} else {
				low += nd.Choice(3-low, "nsStep")
			}
			nss[r][c] = three[low]
			cells[r][c] = shwap.VerifModelShare(three[low], "ods")
		}
	}
	enc := func(in []libshare.Share) []libshare.Share {
		par, err := shwap.VerifModelEncode(libshare.ToBytes(in))
		nd.Assume(err == nil)
		out, err := libshare.FromBytes(par)
		nd.Assume(err == nil)
		return out
	}
	for r := 0; r < k; r++ {
		copy(cells[r][k:], enc(cells[r][:k]))
	}
	for c := 0; c < k; c++ {
		col := make([]libshare.Share, k)
		for r := 0; r < k; r++ {
			col[r] = cells[r][c]
		}
		for r, s := range enc(col) {
			cells[k+r][c] = s
		}
	}
	for r := k; r < 2*k; r++ {
		copy(cells[r][k:], enc(cells[r][:k]))
	}
	var flat [][]byte
	for r := range cells {
		flat = append(flat, libshare.ToBytes(cells[r])...)
	}
	share.DefaultRSMT2DCodec = rsmt2d.NewLeoRSCodec
	sq, err := rsmt2d.ImportExtendedDataSquare(flat, share.DefaultRSMT2DCodec(), wrapper.NewConstructor(uint64(k)))
	nd.Assume(err == nil)
	return cells, nss, sq
}

// the committed root of one row, computed the way rsmt2d computes it (the
// wrapper tree over the extended row); the other roots are not looked at
func verifIpRoots(cells [][]libshare.Share, row int) *share.AxisRoots {
	tree := wrapper.NewErasuredNamespacedMerkleTree(uint64(len(cells)/2), uint(row))
	for _, sh := range cells[row] {
		nd.Assume(tree.Push(sh.ToBytes()) == nil)
	}
	root, err := tree.Root()
	nd.Assert(err == nil, "roots-computable")
	r := &share.AxisRoots{}
	for i := range cells {
		rr, cr := make([]byte, share.AxisRootSize), make([]byte, share.AxisRootSize)
		if i == row {
			rr = root
		}
		r.RowRoots = append(r.RowRoots, rr)
		r.ColumnRoots = append(r.ColumnRoots, cr)
	}
	// contents of one row pairwise different: equal shares share an NMT leaf
	// node (one map entry for both), which multiplies the paths, not the logic
	for i := range cells[row] {
		for j := 0; j < i; j++ {
			nd.Assume(!nd.EqBytes(cells[row][i].ToBytes(), cells[row][j].ToBytes()))
		}
	}
	return r
}

func verifIpWarm(ctx context.Context, acc AccessorStreamer, row int) {
	switch nd.Choice(3, "warm") {
	case 1: // the half is cached, shares and proofs are not
		_, err := acc.AxisHalf(ctx, rsmt2d.Row, row)
		nd.Assert(err == nil, "half-readable")
		nd.Cover("warm-half")
	case 2: // the streamed square caches halves (and extended shares for parity columns)
		rd, err := acc.Reader()
		nd.Assert(err == nil, "stream-opens")
		_, err = ReadShares(rd, libshare.ShareSize, verifIpK)
		nd.Assert(err == nil, "stream-readable")
		nd.Cover("warm-stream")
	default:
		nd.Cover("cold")
	}
}

// A sample served from the proof cache (NMT nodes collected into a CID-keyed
// map while the row tree is built, proof extracted by walking that map) carries
// the committed share and a proof the real verifier accepts against the
// committed row root - and it is the very proof the direct producer builds.
//
//verif:opts nopanic nodeadlock noreplay preempt=0 threads=40 maxwall=600 maxwall_thorough=2400 cover=cold,warm-half,warm-stream,second-sample
func VerifH_C05_CachedSampleProofsVerify() {
	shwap.VerifModelReset()
	k := verifIpPickK()
	ctx := context.Background()
	verifIpOneLayout = !nd.Thorough() || k > 2
	cells, _, sq := verifIpSquare()
	verifIpOneLayout = false
	inner := &Rsmt2D{ExtendedDataSquare: sq}
	acc := WithProofsCache(inner)

	row, col := nd.Choice(2*k, "row"), nd.Choice(2*k, "col")
	roots := verifIpRoots(cells, row)
	verifIpWarm(ctx, acc, row)
	for round := 0; round < 2; round++ {
		s, err := acc.Sample(ctx, shwap.SampleCoords{Row: row, Col: col})
		nd.Assert(err == nil, "cached-sample-is-served")
		nd.Assert(nd.EqBytes(s.Share.ToBytes(), cells[row][col].ToBytes()), "cached-sample-carries-the-committed-share")
		nd.Assert(s.Verify(roots, row, col) == nil, "cached-sample-proof-verifies")
		direct, err := inner.Sample(ctx, shwap.SampleCoords{Row: row, Col: col})
		nd.Assert(err == nil, "direct-sample-is-served")
		nd.Assert(direct.Verify(roots, row, col) == nil, "direct-sample-proof-verifies")
		nd.Assert(s.Proof.Start() == direct.Proof.Start() && s.Proof.End() == direct.Proof.End() &&
			len(s.Proof.Nodes()) == len(direct.Proof.Nodes()), "cached-proof-has-the-direct-proof's-shape")
		for i := range s.Proof.Nodes() {
			nd.Assert(nd.EqBytes(s.Proof.Nodes()[i], direct.Proof.Nodes()[i]), "cached-proof-has-the-direct-proof's-nodes")
		}
		// a second coordinate in the same (now cached) row
		col = nd.Choice(2*k, "col2")
		if round == 0 {
			nd.Cover("second-sample")
		}
	}
}

// Row namespace data served from the proof cache: for a namespace present in
// the row the committed shares of that namespace in order with a proof the real
// verifier accepts; for a namespace inside the row's range but absent an
// absence proof that verifies; for a namespace outside the row's range the
// documented error.
//
//verif:opts nopanic nodeadlock noreplay preempt=0 threads=40 maxwall=600 maxwall_thorough=2400 cover=present,absent-inside,outside,cold,warm-half,warm-stream
func VerifH_C05_CachedRowNamespaceDataVerifies() {
	shwap.VerifModelReset()
	k := verifIpPickK()
	ctx := context.Background()
	cells, nss, sq := verifIpSquare()
	inner := &Rsmt2D{ExtendedDataSquare: sq}
	acc := WithProofsCache(inner)

	row := nd.Choice(k, "row")
	roots := verifIpRoots(cells, row)
	want := []libshare.Namespace{verifIpNs0, verifIpNsA, verifIpNsAB, verifIpNsB, verifIpNsC, verifIpNsZ}[nd.Choice(6, "ns")]
	verifIpWarm(ctx, acc, row)
	if nd.Choice(2, "sampleFirst") == 1 {
		_, err := acc.Sample(ctx, shwap.SampleCoords{Row: row, Col: nd.Choice(2*k, "col")})
		nd.Assert(err == nil, "cached-sample-is-served")
	}

	var expect []libshare.Share
	for c := 0; c < k; c++ {
		if nss[row][c].Equals(want) {
			expect = append(expect, cells[row][c])
		}
	}
	outside := want.IsLessThan(nss[row][0]) || nss[row][k-1].IsLessThan(want)

	rnd, err := acc.RowNamespaceData(ctx, want, row)
	if outside {
		nd.Cover("outside")
		nd.Assert(errors.Is(err, shwap.ErrNamespaceOutsideRange), "namespace-outside-the-row-is-reported-as-such")
		return
	}
	nd.Assert(err == nil, "cached-namespace-data-is-served")
	nd.Assert(len(rnd.Shares) == len(expect), "cached-namespace-data-has-all-shares-of-the-namespace")
	for i := range expect {
		nd.Assert(nd.EqBytes(rnd.Shares[i].ToBytes(), expect[i].ToBytes()), "cached-namespace-data-carries-the-committed-shares")
	}
	if len(expect) > 0 {
		nd.Cover("present")
	} else {
		nd.Cover("absent-inside")
	}
	nd.Assert(rnd.Verify(roots, want, row) == nil, "cached-namespace-data-verifies")
	direct, err := inner.RowNamespaceData(ctx, want, row)
	nd.Assert(err == nil, "direct-namespace-data-is-served")
	nd.Assert(direct.Verify(roots, want, row) == nil, "direct-namespace-data-verifies")
	nd.Assert(rnd.Proof.Start() == direct.Proof.Start() && rnd.Proof.End() == direct.Proof.End() &&
		len(rnd.Proof.Nodes()) == len(direct.Proof.Nodes()) &&
		rnd.Proof.IsOfAbsence() == direct.Proof.IsOfAbsence(), "cached-namespace-proof-has-the-direct-proof's-shape")
	for i := range rnd.Proof.Nodes() {
		nd.Assert(nd.EqBytes(rnd.Proof.Nodes()[i], direct.Proof.Nodes()[i]), "cached-namespace-proof-has-the-direct-proof's-nodes")
	}
	lh1, lh2 := rnd.Proof.LeafHash(), direct.Proof.LeafHash()
	nd.Assert(len(lh1) == len(lh2), "cached-absence-proof-has-the-direct-leaf-hash")
	if len(lh1) == len(lh2) {
		nd.Assert(nd.EqBytes(lh1, lh2), "cached-absence-proof-has-the-direct-leaf-hash")
	}
}
