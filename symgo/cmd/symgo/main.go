package main

import (
	"flag"
	"fmt"
	"os"
	"strings"

	"symgo/engine"
)

func main() {
	pats := flag.String("pkgs", "", "comma separated patterns")
	ov := flag.String("overlay", "", "virt=real,...")
	h := flag.String("harness", "", "harness function")
	trace := flag.Bool("trace", false, "")
	workers := flag.Int("workers", 16, "")
	flag.Parse()
	spec := engine.LoadSpec{Patterns: strings.Split(*pats, ","), Overlay: map[string]string{}}
	for _, kv := range strings.Split(*ov, ",") {
		if kv == "" {
			continue
		}
		p := strings.SplitN(kv, "=", 2)
		spec.Overlay[p[0]] = p[1]
	}
	P, err := engine.Load(spec)
	if err != nil {
		fmt.Println("load error:", err)
		os.Exit(2)
	}
	fmt.Printf("loaded in %.1fs: %v\n", P.LoadSeconds, P.SourcePkgs)
	res := P.Explore(engine.Config{Harness: *h, Trace: *trace, Workers: *workers})
	fmt.Println(res.Summary())
	for _, v := range res.Violations {
		fmt.Printf("VIOLATION %s %s %s values=%v\n", v.Kind, v.Label, v.Detail, v.Values)
	}
	for _, s := range res.Inconclusive {
		fmt.Println("INCONCLUSIVE:", s)
	}
	fmt.Println("covers:", res.Covers)
}
