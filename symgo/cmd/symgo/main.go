package main

// symgo check <ID> [--tier quick|thorough] [--replay file] [--only harness] [--trace]
//
// A check is the set of harness files under /verif/harness/<ID>/. Each file
// carries directives in comments:
//
//   //verif:overlay <path under /repo>            where the file is injected
//   //verif:pkgs <pattern> ...                    packages loaded from source
//   //verif:init <pkgpath> ...                    package inits run before each path
//   //verif:replace <callee name> <pkg.Func>      stub
//   //verif:noop <pkgpath prefix>                 body-less functions of these packages are no-ops
//   //verif:bound <text>                          bound, copied into the evidence
//   //verif:assume <text>                         assumption/stub, copied into the evidence
//   //verif:outside <text>                        part of the property outside the claim
//
// and every function VerifH_<ID>_<name> is a harness; its doc comment may
// hold  //verif:opts nopanic nodeadlock preempt=N threads=N maxsteps=N
// maxpaths=N maxdecs=N tier=thorough noreplay cover=a,b,c

import (
	"encoding/json"
	"flag"
	"fmt"
	"os"
	"os/exec"
	"path/filepath"
	"regexp"
	"runtime/pprof"
	"sort"
	"strconv"
	"strings"
	"time"

	"symgo/engine"
)

const verifDir = "/verif"

var basePkgs = []string{"errors", "encoding/binary", "bytes", "strings", "sort", "slices", "math/bits", "io",
	"unicode/utf8", "strconv", "internal/strconv", "internal/stringslite", "sync/atomic", "context", "container/list", "maps", "bufio", "cmp", "iter", "math"}

type harnessDef struct {
	Name    string
	Pkg     string
	Opts    map[string]string
	File    string
	Covers  []string
	Tier    string
	NoRepl  bool
	Virtual string
}

type checkDef struct {
	ID        string
	Spec      engine.LoadSpec
	Harnesses []harnessDef
	Bounds    []string
	Assume    []string
	Outside   []string
	Files     []string
}

var reFunc = regexp.MustCompile(`(?m)^func (VerifH_[A-Za-z0-9_]+)\(\)`)
var rePkg = regexp.MustCompile(`(?m)^package ([A-Za-z0-9_]+)`)

// checkGroups lists the harness directories of a check: harness/<ID> and
// every harness/<ID>.<suffix> (a group is loaded as its own program, so its
// //verif:replace directives do not touch the other groups).
func checkGroups(id string) []string {
	var out []string
	if fi, err := os.Stat(filepath.Join(verifDir, "harness", id)); err == nil && fi.IsDir() {
		out = append(out, filepath.Join(verifDir, "harness", id))
	}
	more, _ := filepath.Glob(filepath.Join(verifDir, "harness", id+".*"))
	sort.Strings(more)
	return append(out, more...)
}

func loadCheck(id, dir string) (*checkDef, error) {
	files, _ := filepath.Glob(filepath.Join(dir, "*.go"))
	if len(files) == 0 {
		return nil, fmt.Errorf("no harness files in %s", dir)
	}
	sort.Strings(files)
	cd := &checkDef{ID: id}
	cd.Spec.Overlay = map[string]string{"verifnd/nd.go": filepath.Join(verifDir, "harness/verifnd/nd.go")}
	cd.Spec.Replacements = map[string]string{}
	pats := map[string]bool{"./verifnd": true}
	for _, p := range basePkgs {
		pats[p] = true
	}
	nOwn := len(files)
	for fi := 0; fi < len(files); fi++ {
		f := files[fi]
		b, err := os.ReadFile(f)
		if err != nil {
			return nil, err
		}
		src := string(b)
		cd.Files = append(cd.Files, f)
		// //verif:include <path relative to this file>: shared model files
		for _, ln := range strings.Split(src, "\n") {
			if rest, ok := strings.CutPrefix(strings.TrimSpace(ln), "//verif:include "); ok {
				inc := filepath.Join(filepath.Dir(f), strings.TrimSpace(rest))
				if !contains(files, inc) {
					files = append(files, inc)
				}
			}
		}
		included := fi >= nOwn
		virt := ""
		lines := strings.Split(src, "\n")
		for _, ln := range lines {
			ln = strings.TrimSpace(ln)
			if !strings.HasPrefix(ln, "//verif:") {
				continue
			}
			rest := strings.TrimPrefix(ln, "//verif:")
			kw, arg, _ := strings.Cut(rest, " ")
			arg = strings.TrimSpace(arg)
			switch kw {
			case "overlay":
				virt = arg
			case "pkgs":
				for _, p := range strings.Fields(arg) {
					pats[p] = true
				}
			case "init":
				cd.Spec.InitPkgs = append(cd.Spec.InitPkgs, strings.Fields(arg)...)
			case "replace":
				fs := strings.Fields(arg)
				if len(fs) != 2 {
					return nil, fmt.Errorf("%s: bad replace directive %q", f, ln)
				}
				cd.Spec.Replacements[fs[0]] = fs[1]
			case "gen":
				// //verif:gen permtable <virtual path> <package name>: a table
				// generated from /repo's current source on every run
				fs := strings.Fields(arg)
				if len(fs) != 3 || fs[0] != "permtable" {
					return nil, fmt.Errorf("%s: bad gen directive %q", f, ln)
				}
				real, err := genPermTable(id, fs[2])
				if err != nil {
					return nil, fmt.Errorf("%s: gen permtable: %w", f, err)
				}
				cd.Spec.Overlay[fs[1]] = real
				cd.Files = append(cd.Files, real)
			case "noop":
				cd.Spec.NoopPkgs = append(cd.Spec.NoopPkgs, strings.Fields(arg)...)
			case "bound":
				cd.Bounds = append(cd.Bounds, arg)
			case "assume":
				cd.Assume = append(cd.Assume, arg)
			case "outside":
				cd.Outside = append(cd.Outside, arg)
			}
		}
		if virt == "" {
			return nil, fmt.Errorf("%s: missing //verif:overlay directive", f)
		}
		cd.Spec.Overlay[virt] = f
		pkgDir := filepath.Dir(virt)
		pats["./"+pkgDir] = true
		pkgPath := engine.RepoMod + "/" + pkgDir
		if !contains(cd.Spec.InitPkgs, pkgPath) {
			cd.Spec.InitPkgs = append(cd.Spec.InitPkgs, pkgPath)
		}
		// harness functions and their opts (doc comment lines immediately above)
		for i, ln := range lines {
			mm := reFunc.FindStringSubmatch(ln)
			if mm == nil || included {
				continue
			}
			h := harnessDef{Name: mm[1], Pkg: pkgPath, Opts: map[string]string{}, File: f, Tier: "quick", Virtual: virt}
			for j := i - 1; j >= 0 && strings.HasPrefix(strings.TrimSpace(lines[j]), "//"); j-- {
				c := strings.TrimSpace(lines[j])
				if strings.HasPrefix(c, "//verif:opts") {
					for _, o := range strings.Fields(strings.TrimPrefix(c, "//verif:opts")) {
						k, v, _ := strings.Cut(o, "=")
						h.Opts[k] = v
					}
				}
			}
			if t, ok := h.Opts["tier"]; ok {
				h.Tier = t
			}
			if c, ok := h.Opts["cover"]; ok {
				h.Covers = strings.Split(c, ",")
			}
			_, h.NoRepl = h.Opts["noreplay"]
			cd.Harnesses = append(cd.Harnesses, h)
		}
	}
	for p := range pats {
		cd.Spec.Patterns = append(cd.Spec.Patterns, p)
	}
	sort.Strings(cd.Spec.Patterns)
	return cd, nil
}

func contains(l []string, s string) bool {
	for _, x := range l {
		if x == s {
			return true
		}
	}
	return false
}

func atoi(s string, def int) int {
	if s == "" {
		return def
	}
	n, err := strconv.Atoi(s)
	if err != nil {
		return def
	}
	return n
}

func (h *harnessDef) config(tier string, known map[string]bool) engine.Config {
	c := engine.Config{Harness: h.Pkg + "." + h.Name, Known: known}
	_, c.NoPanic = h.Opts["nopanic"]
	_, c.NoDeadlock = h.Opts["nodeadlock"]
	_, c.NoLivelock = h.Opts["nolivelock"]
	c.Preemptions = atoi(h.Opts["preempt"], 0)
	if tier == "thorough" {
		c.Preemptions = atoi(h.Opts["preempt_thorough"], c.Preemptions)
	}
	c.MaxThreads = atoi(h.Opts["threads"], 0)
	c.MaxSteps = int64(atoi(h.Opts["maxsteps"], 0))
	c.MaxPaths = atoi(h.Opts["maxpaths"], 0)
	c.MaxDecs = atoi(h.Opts["maxdecs"], 0)
	c.TimeoutMs = atoi(h.Opts["timeout_ms"], 0)
	c.SolverName = h.Opts["solver"]
	c.MaxWallS = atoi(h.Opts["maxwall"], 0)
	c.Thorough = tier == "thorough"
	if tier == "thorough" {
		c.MaxWallS = atoi(h.Opts["maxwall_thorough"], c.MaxWallS*4)
		// the thorough tier may take its time: four times the path budget and
		// a 10 s limit per incremental query (a loaded machine otherwise turns
		// slow queries into 'unknown')
		base := c.MaxPaths
		if base == 0 {
			base = 200000
		}
		c.MaxPaths = atoi(h.Opts["maxpaths_thorough"], base*4)
		if c.TimeoutMs == 0 {
			c.TimeoutMs = 10000
		}
	}
	return c
}

type knownFile struct {
	Findings []struct {
		Property string `json:"property"`
		ID       string `json:"id"`
		Harness  string `json:"harness"`
		What     string `json:"what"`
	} `json:"findings"`
	Fixed []string `json:"fixed"`
}

func loadKnown(id string) (map[string]bool, map[string]string) {
	act := map[string]bool{}
	what := map[string]string{}
	b, err := os.ReadFile(filepath.Join(verifDir, "known_findings.json"))
	if err != nil {
		return act, what
	}
	var kf knownFile
	if json.Unmarshal(b, &kf) != nil {
		return act, what
	}
	for _, f := range kf.Findings {
		if f.Property == id {
			act[f.ID] = true
			what[f.ID] = f.What
		}
	}
	return act, what
}

func main() {
	if len(os.Args) < 2 {
		fmt.Println("usage: symgo check <ID> [flags] | symgo run ...")
		os.Exit(2)
	}
	switch os.Args[1] {
	case "check":
		os.Exit(cmdCheck(os.Args[2:]))
	case "run":
		os.Exit(cmdRun(os.Args[2:]))
	}
	fmt.Println("unknown command", os.Args[1])
	os.Exit(2)
}

func cmdRun(args []string) int {
	fs := flag.NewFlagSet("run", flag.ExitOnError)
	pats := fs.String("pkgs", "", "comma separated patterns")
	ov := fs.String("overlay", "", "virt=real,...")
	h := fs.String("harness", "", "harness function")
	trace := fs.Bool("trace", false, "")
	workers := fs.Int("workers", 16, "")
	fs.Parse(args)
	spec := engine.LoadSpec{Patterns: strings.Split(*pats, ","), Overlay: map[string]string{}}
	for _, kv := range strings.Split(*ov, ",") {
		if kv == "" {
			continue
		}
		p := strings.SplitN(kv, "=", 2)
		spec.Overlay[p[0]] = p[1]
	}
	P, err := engine.Load(spec)
	if err != nil {
		fmt.Println("load error:", err)
		return 2
	}
	res := P.Explore(engine.Config{Harness: *h, Trace: *trace, Workers: *workers})
	fmt.Println(res.Summary())
	return 0
}

type harnessEvidence struct {
	Name         string         `json:"name"`
	Paths        int            `json:"paths"`
	Completed    int            `json:"completed"`
	Pruned       int            `json:"pruned_by_assume"`
	Panicked     int            `json:"panicked_paths"`
	Deadlocked   int            `json:"deadlocked_paths"`
	Decisions    int            `json:"decisions"`
	Asserts      int            `json:"assertion_queries"`
	Steps        int64          `json:"ssa_instructions_executed"`
	MaxPathSteps int64          `json:"max_instructions_on_a_path"`
	MaxPathDecs  int            `json:"max_decisions_on_a_path"`
	Threads      int            `json:"max_threads"`
	Covers       map[string]int `json:"cover_labels_reached"`
	Budget       map[string]any `json:"budgets"`
	Wall         float64        `json:"wall_s"`
	Verdict      string         `json:"verdict"`
}

func cmdCheck(args []string) int {
	if len(args) < 1 {
		fmt.Println("usage: symgo check <ID> [--tier quick|thorough] [--replay file]")
		return 2
	}
	id := args[0]
	fs := flag.NewFlagSet("check", flag.ExitOnError)
	tier := fs.String("tier", os.Getenv("VERIF_TIER"), "quick|thorough")
	replay := fs.String("replay", "", "replay a counterexample file")
	only := fs.String("only", "", "run only harnesses whose name contains this")
	trace := fs.Bool("trace", false, "trace paths")
	workers := fs.Int("workers", 16, "")
	noEvidence := fs.Bool("no-evidence", false, "do not write the evidence file")
	first := fs.Bool("first", false, "stop each harness at its first violation")
	cpuprof := fs.String("cpuprofile", "", "write a CPU profile")
	fs.Parse(args[1:])
	if *tier == "" {
		*tier = "quick"
	}
	if *cpuprof != "" {
		f, err := os.Create(*cpuprof)
		if err == nil {
			pprof.StartCPUProfile(f)
			defer pprof.StopCPUProfile()
		}
	}
	seed, _ := strconv.Atoi(os.Getenv("VERIF_SEED"))
	t0 := time.Now()

	groups := checkGroups(id)
	if len(groups) == 0 {
		fmt.Println("INCONCLUSIVE: no harness directory for", id)
		return 2
	}
	known, knownWhat := loadKnown(id)

	var hes []harnessEvidence
	var knownViol []*engine.Violation
	var inconclusive []string
	funcs := map[string]int{}
	var solver engine.SolverStats
	totalPaths, totalDecs, symPaths := 0, 0, 0
	var samples []any
	knownHits := map[string]int{}
	nativeReplays := 0
	exit := 0
	var reported []string
	merged := &checkDef{ID: id}
	srcPkgs := map[string]bool{}
	loadSeconds := 0.0
	for _, gdir := range groups {
		cd, err := loadCheck(id, gdir)
		if err != nil {
			fmt.Println("INCONCLUSIVE:", err)
			return 2
		}
		if *only != "" {
			any := false
			for _, h := range cd.Harnesses {
				any = any || strings.Contains(h.Name, *only)
			}
			if !any {
				continue
			}
		}
		if *replay != "" {
			// the group that defines the replayed harness
			rb, _ := os.ReadFile(*replay)
			found := false
			for _, h := range cd.Harnesses {
				if strings.Contains(string(rb), h.Pkg+"."+h.Name+"\"") {
					found = true
				}
			}
			if !found && len(groups) > 1 {
				continue
			}
		}
		P, err := engine.Load(cd.Spec)
		if err != nil {
			fmt.Println("INCONCLUSIVE: load:", err)
			return 2
		}
		fmt.Printf("[%s] %s: loaded %d packages from source in %.1fs\n", id, filepath.Base(gdir), len(P.SourcePkgs), P.LoadSeconds)
		if *replay != "" {
			return doReplay(cd, P, *replay)
		}
		merged.Bounds = append(merged.Bounds, cd.Bounds...)
		merged.Assume = append(merged.Assume, cd.Assume...)
		merged.Outside = append(merged.Outside, cd.Outside...)
		for _, sp := range P.SourcePkgs {
			srcPkgs[sp] = true
		}
		loadSeconds += P.LoadSeconds
		var allViol []*engine.Violation
		for _, h := range cd.Harnesses {
			if *only != "" && !strings.Contains(h.Name, *only) {
				continue
			}
			if h.Tier == "thorough" && *tier != "thorough" {
				continue
			}
			cfg := h.config(*tier, known)
			cfg.Trace = *trace
			cfg.Workers = *workers
			cfg.StopAtFirst = *first
			res := P.Explore(cfg)
			fmt.Println("  " + res.Summary())
			he := harnessEvidence{Name: h.Name, Paths: res.Paths, Completed: res.Completed, Pruned: res.Infeasible,
				Panicked: res.Panicked, Deadlocked: res.Deadlocked, Decisions: res.Decisions, Asserts: res.Asserts,
				Steps: res.Steps, MaxPathSteps: res.MaxPathSteps, MaxPathDecs: res.MaxPathDecs, Threads: res.Threads,
				Covers: res.Covers, Wall: res.Wall, Verdict: "holds within bounds",
				Budget: map[string]any{"opts": h.Opts}}
			for _, c := range h.Covers {
				if res.Covers[c] == 0 {
					msg := fmt.Sprintf("%s: cover label %q not reached (vacuity)", h.Name, c)
					inconclusive = append(inconclusive, msg)
					he.Verdict = "inconclusive"
				}
			}
			for _, s := range res.Inconclusive {
				inconclusive = append(inconclusive, h.Name+": "+s)
				he.Verdict = "inconclusive"
			}
			if h.Opts["expect"] == "violation" {
				// self-test: the engine must find this counterexample
				if len(res.Violations) == 0 {
					inconclusive = append(inconclusive, h.Name+": expected violation was not found")
					he.Verdict = "inconclusive"
				} else {
					he.Verdict = "violation found as expected"
				}
				res.Violations = nil
			}
			for _, v := range res.Violations {
				if kid := v.KnownID; kid != "" && known[kid] {
					knownViol = append(knownViol, v)
					continue
				}
				allViol = append(allViol, v)
				he.Verdict = "violated"
			}
			for k, n := range res.KnownHits {
				knownHits[k] += n
			}
			for f, n := range res.Funcs {
				funcs[f] = n
			}
			solver.Sat += res.Solver.Sat
			solver.Unsat += res.Solver.Unsat
			solver.Unknown += res.Solver.Unknown
			solver.Seconds += res.Solver.Seconds
			totalPaths += res.Paths
			totalDecs += res.Decisions
			symPaths += res.SymPaths
			for i, s := range res.Samples {
				if i < 2 {
					samples = append(samples, map[string]any{"harness": h.Name, "path": s})
				}
			}
			hes = append(hes, he)
		}

		// confirm violations by replay before reporting
		for i, v := range allViol {
			if i >= 5 {
				break
			}
			v.Tier = *tier
			path := writeReplay(id, v)
			ok, how := confirm(cd, P, v, path)
			if ok {
				nativeReplays++
				fmt.Printf("VIOLATION property=%s replay=%s\n", id, path)
				fmt.Printf("  harness=%s kind=%s label=%q %s [%s]\n", v.Harness, v.Kind, v.Label, firstLine(v.Detail), how)
				reported = append(reported, path)
				exit = 1
			} else {
				inconclusive = append(inconclusive, fmt.Sprintf("counterexample for %s/%s did not reproduce on replay (%s): encoding or stub defect", v.Harness, v.Label, how))
			}
		}
	} // groups
	if *replay != "" {
		fmt.Println("INCONCLUSIVE: replay file names no harness of", id)
		return 2
	}

	// report known findings that still reproduce
	seenKnown := map[string]bool{}
	for _, v := range knownViol {
		if !seenKnown[v.KnownID] {
			seenKnown[v.KnownID] = true
			fmt.Printf("KNOWN-FINDING: property=%s %s (%s)\n", id, knownWhat[v.KnownID], v.KnownID)
		}
	}
	if exit == 0 && len(inconclusive) > 0 {
		for _, s := range inconclusive {
			fmt.Println("INCONCLUSIVE:", firstLine(s))
		}
		exit = 2
	}

	if !*noEvidence {
		var spl []string
		for sp := range srcPkgs {
			spl = append(spl, sp)
		}
		sort.Strings(spl)
		writeEvidence(id, *tier, seed, merged, spl, loadSeconds, hes, funcs, solver, totalPaths, totalDecs, symPaths, samples, len(reported), inconclusive, knownHits, time.Since(t0).Seconds())
	}
	fmt.Printf("[%s] tier=%s exit=%d wall=%.1fs\n", id, *tier, exit, time.Since(t0).Seconds())
	return exit
}

func firstLine(s string) string {
	if i := strings.IndexByte(s, '\n'); i >= 0 {
		return s[:i]
	}
	return s
}

func writeReplay(id string, v *engine.Violation) string {
	dir := filepath.Join(verifDir, "replays")
	os.MkdirAll(dir, 0o755)
	b, _ := json.MarshalIndent(v, "", " ")
	h := uint32(2166136261)
	for _, c := range b {
		h = (h ^ uint32(c)) * 16777619
	}
	short := v.Harness[strings.LastIndex(v.Harness, ".")+1:]
	p := filepath.Join(dir, fmt.Sprintf("%s-%s-%08x.json", id, short, h))
	os.WriteFile(p, b, 0o644)
	return p
}

// nativeTier is the tier of the counterexample being replayed natively.
var nativeTier = "quick"

// confirm re-executes the counterexample concretely in the engine and, when
// the harness has no stubs, natively against the real build.
func confirm(cd *checkDef, P *engine.Program, v *engine.Violation, path string) (bool, string) {
	var hd *harnessDef
	for i := range cd.Harnesses {
		if cd.Harnesses[i].Pkg+"."+cd.Harnesses[i].Name == v.Harness {
			hd = &cd.Harnesses[i]
		}
	}
	if hd == nil {
		return false, "harness not found"
	}
	replayTier := v.Tier
	if replayTier == "" {
		replayTier = "quick"
	}
	nativeTier = replayTier
	cfg := hd.config(replayTier, nil)
	cfg.ReplayVals = v.Values
	if cfg.ReplayVals == nil {
		cfg.ReplayVals = map[string]uint64{}
	}
	cfg.ReplayDecs = v.Decisions
	cfg.ReplayKinds = v.DecKinds
	cfg.Workers = 1
	res := P.Explore(cfg)
	engineOK := len(res.Violations) > 0
	if !engineOK {
		return false, "in-engine concrete re-execution did not hit the violation: " + res.Summary()
	}
	if hd.NoRepl || len(cd.Spec.Replacements) > 0 && hd.Opts["native"] == "" {
		return true, "confirmed by in-engine concrete re-execution (harness uses stubs: no native replay)"
	}
	ok, out := nativeReplay(cd, hd, path)
	if ok {
		return true, "confirmed by in-engine concrete re-execution and native go test replay"
	}
	return false, "native replay did not reproduce: " + firstLine(out)
}

// nativeReplay compiles the harness with the native verifnd and runs it under
// go test with overlays; "reproduced" = the test fails (assert or panic).
func nativeReplay(cd *checkDef, hd *harnessDef, path string) (bool, string) {
	work := filepath.Join(verifDir, ".work", "replay")
	os.MkdirAll(work, 0o755)
	pkgDir := filepath.Dir(hd.Virtual)
	b, _ := os.ReadFile(hd.File)
	pkgName := rePkg.FindStringSubmatch(string(b))[1]
	testSrc := fmt.Sprintf(`package %s

import (
	"testing"
	nd "github.com/celestiaorg/celestia-node/verifnd"
)

func TestVerifReplay(t *testing.T) {
	nd.Reset()
	defer func() {
		if r := recover(); r != nil {
			if nd.IsEnd(r) {
				if len(nd.Failed) > 0 {
					t.Fatalf("VERIF-REPRODUCED assert %%v", nd.Failed)
				}
				return
			}
			t.Fatalf("VERIF-REPRODUCED panic: %%v", r)
		}
	}()
	%s()
	if len(nd.Failed) > 0 {
		t.Fatalf("VERIF-REPRODUCED assert %%v", nd.Failed)
	}
}
`, pkgName, hd.Name)
	testFile := filepath.Join(work, "zz_verif_replay_test.go")
	os.WriteFile(testFile, []byte(testSrc), 0o644)
	repl := map[string]string{filepath.Join(engine.RepoDir, pkgDir, "zz_verif_replay_test.go"): testFile}
	for virt, real := range cd.Spec.Overlay {
		repl[filepath.Join(engine.RepoDir, virt)] = real
	}
	ob, _ := json.Marshal(map[string]any{"Replace": repl})
	ovFile := filepath.Join(work, "overlay.json")
	os.WriteFile(ovFile, ob, 0o644)
	cmd := exec.Command("go", "test", "-vet=off", "-count=1", "-run", "^TestVerifReplay$", "-overlay", ovFile, "./"+pkgDir)
	cmd.Dir = engine.RepoDir
	cmd.Env = append(engine.GoEnv(), "VERIF_REPLAY="+path, "VERIF_TIER="+nativeTier)
	out, err := cmd.CombinedOutput()
	s := string(out)
	os.WriteFile(strings.TrimSuffix(path, ".json")+".log", out, 0o644)
	if err != nil && strings.Contains(s, "VERIF-REPRODUCED") {
		return true, s
	}
	if err != nil {
		return false, "go test failed without reproducing: " + lastLines(s, 5)
	}
	return false, "test passed natively"
}

func lastLines(s string, n int) string {
	ls := strings.Split(strings.TrimSpace(s), "\n")
	if len(ls) > n {
		ls = ls[len(ls)-n:]
	}
	return strings.Join(ls, " | ")
}

func doReplay(cd *checkDef, P *engine.Program, path string) int {
	b, err := os.ReadFile(path)
	if err != nil {
		fmt.Println("cannot read replay:", err)
		return 2
	}
	var v engine.Violation
	if err := json.Unmarshal(b, &v); err != nil {
		fmt.Println("bad replay file:", err)
		return 2
	}
	ok, how := confirm(cd, P, &v, path)
	fmt.Printf("replay %s: reproduced=%v (%s)\n", path, ok, how)
	if ok {
		fmt.Printf("VIOLATION property=%s replay=%s\n", cd.ID, path)
		return 1
	}
	return 0
}

func writeEvidence(id, tier string, seed int, cd *checkDef, sourcePkgs []string, loadSeconds float64, hes []harnessEvidence, funcs map[string]int,
	solver engine.SolverStats, paths, decs, symPaths int, samples []any, violations int, inconclusive []string, knownHits map[string]int, wall float64) {
	type fe struct {
		Func   string `json:"func"`
		Instrs int    `json:"ssa_instrs"`
	}
	var fl []fe
	repoInstr := 0
	for f, n := range funcs {
		if strings.Contains(f, engine.RepoMod) && !strings.Contains(f, "VerifH_") && !strings.Contains(f, "/verifnd") {
			fl = append(fl, fe{strings.ReplaceAll(f, engine.RepoMod+"/", ""), n})
			repoInstr += n
		}
	}
	sort.Slice(fl, func(i, j int) bool { return fl[i].Func < fl[j].Func })
	if len(samples) == 0 {
		samples = append(samples, "no symbolic path recorded")
	}
	if len(samples) > 8 {
		samples = samples[:8]
	}
	selftest := readSelftestCount()
	cov := map[string]any{
		"states":                        max(paths, 1),
		"transitions":                   max(decs, 1),
		"traces_validated_against_impl": selftest,
		"samples":                       samples,
		"exhaustive":                    len(inconclusive) == 0,
		"rule":                          "state = one complete path of a harness (distinct decision vector: branch outcomes on symbolic conditions, Choice values, scheduler choices); transition = one decision; each path's assertions are discharged by an SMT query over all values of the symbolic inputs on that path",
		"evaluations":                   max(paths, 1),
		"distinct_nontrivial":           max(symPaths, 2),
		"harnesses":                     hes,
		"functions_encoded":             fl,
		"repo_functions_encoded":        len(fl),
		"repo_ssa_instructions_encoded": repoInstr,
		"source_packages":               sourcePkgs,
		"bounds":                        cd.Bounds,
		"outside_the_claim":             cd.Outside,
		"queries":                       map[string]any{"solver": "z3 5.1.0 (z3-new -in, incremental; override with SYMGO_SOLVER); fall-back on unknown: one-shot z3 5.1.0 (60 s), z3 4.8.12 (30 s), cvc5 1.0 --solve-bv-as-int=sum (90 s)", "sat": solver.Sat, "unsat": solver.Unsat, "unknown": solver.Unknown, "solver_seconds": solver.Seconds},
		"inconclusive":                  inconclusive,
		"known_finding_regions_hit":     knownHits,
		"load_seconds":                  loadSeconds,
	}
	ev := map[string]any{
		"property_id": id, "tier": tier, "seed": seed, "level": "model_checking",
		"coverage": cov, "assumptions": append([]string{"int/uint are 64-bit; integers are bit-vectors with Go wrap-around semantics", "goroutines interleave only at synchronisation operations (race-free code assumed)"}, cd.Assume...),
		"wall_s": wall, "violations": violations,
	}
	b, _ := json.MarshalIndent(ev, "", " ")
	os.MkdirAll(filepath.Join(verifDir, "evidence"), 0o755)
	os.WriteFile(filepath.Join(verifDir, "evidence", id+".json"), b, 0o644)
}

func readSelftestCount() int {
	b, err := os.ReadFile(filepath.Join(verifDir, ".work", "selftest.count"))
	if err != nil {
		return 0
	}
	n, _ := strconv.Atoi(strings.TrimSpace(string(b)))
	return n
}
