package engine

import "strings"

// inRepoCode reports whether the function currently executing on this thread
// belongs to the repository module (harness files included).
func (m *Machine) inRepoCode() bool {
	top := m.cur.top
	if top == nil {
		return true
	}
	fn := top.fn
	for fn != nil && fn.Pkg == nil && fn.Parent() != nil {
		fn = fn.Parent()
	}
	if fn == nil || fn.Pkg == nil {
		if fn != nil && fn.Origin() != nil && fn.Origin().Pkg != nil {
			return strings.HasPrefix(fn.Origin().Pkg.Pkg.Path(), RepoMod)
		}
		return false
	}
	return strings.HasPrefix(fn.Pkg.Pkg.Path(), RepoMod)
}
