package engine

import (
	"fmt"
	"go/token"
	"go/types"
	"os"
	"runtime"
	"slices"
	"strings"
	"sync"

	"golang.org/x/tools/go/ssa"
)

type continuation int

const (
	kNext continuation = iota
	kReturn
	kJump
)

type abortKind int

const (
	abortInfeasible  abortKind = iota // Assume(false) / infeasible prefix: path pruned
	abortUnsupported                  // construct the engine cannot model -> inconclusive
	abortBudget                       // unwinding/instruction budget hit -> inconclusive
	abortSolver                       // solver unknown/error -> inconclusive
	abortViolation                    // assertion violated (model captured)
	abortKilled                       // thread killed because the path ended
	abortDeadlock                     // all threads blocked
	abortEnd                          // harness asked to end the path normally
	abortLivelock                     // instruction budget exhausted in a harness that asserts termination (nolivelock)
)

var abortNames = [...]string{"infeasible", "unsupported", "budget", "solver", "violation", "killed", "deadlock", "end", "livelock"}

type engineAbort struct {
	kind abortKind
	msg  string
}

func (e engineAbort) String() string { return abortNames[e.kind] + ": " + e.msg }

type deferred struct {
	fn    value
	args  []value
	instr *ssa.Defer
	tail  *deferred
}

type frame struct {
	m                *Machine
	t                *thread
	caller           *frame
	fn               *ssa.Function
	info             *fnInfo
	block, prevBlock *ssa.BasicBlock
	env              []value
	locals           []value
	defers           *deferred
	result           value
	panicking        bool
	panic            any
	phitemps         []value
	depth            int
	cur              ssa.Instruction
}

// fnInfo caches per-function register numbering and call resolution.
type fnInfo struct {
	regs   map[ssa.Value]int
	nregs  int
	intr   intrinsic
	repl   *ssa.Function
	noop   bool
	name   string
	once   sync.Once
	nInstr int
}

func (fr *frame) get(key ssa.Value) value {
	switch key := key.(type) {
	case nil:
		return nil
	case *ssa.Function, *ssa.Builtin:
		return key
	case *ssa.Const:
		return fr.m.constValue(key)
	case *ssa.Global:
		if r, ok := fr.m.globals[key]; ok {
			return r
		}
		return fr.m.globalAddr(key)
	}
	if i, ok := fr.info.regs[key]; ok {
		return fr.env[i]
	}
	panic(fmt.Sprintf("get: no value for %T: %v in %s", key, key.Name(), fr.fn))
}

func (fr *frame) set(key ssa.Value, v value) {
	fr.env[fr.info.regs[key]] = v
}

func (m *Machine) globalAddr(g *ssa.Global) *value {
	cell := m.zero(deref(g.Type()))
	p := &cell
	m.globals[g] = p
	return p
}

func (fr *frame) runDefer(d *deferred) {
	var ok bool
	defer func() {
		if !ok {
			r := recover()
			if ea, isAbort := r.(engineAbort); isAbort {
				panic(ea)
			}
			fr.panicking = true
			fr.panic = r
		}
	}()
	fr.m.call(fr, d.instr, d.fn, d.args)
	ok = true
}

func (fr *frame) runDefers() {
	for d := fr.defers; d != nil; d = d.tail {
		fr.runDefer(d)
	}
	fr.defers = nil
	if fr.panicking {
		panic(fr.panic)
	}
}

func (m *Machine) lookupMethod(typ types.Type, meth *types.Func) *ssa.Function {
	return m.P.Prog.LookupMethod(typ, meth.Pkg(), meth.Name())
}

func (m *Machine) step(fr *frame) {
	m.steps++
	if m.steps > m.cfg.MaxSteps {
		if m.cfg.NoLivelock {
			panic(engineAbort{abortLivelock, fmt.Sprintf("no termination within %d instructions; last in %s", m.cfg.MaxSteps, fr.fn)})
		}
		panic(engineAbort{abortBudget, fmt.Sprintf("instruction budget %d exhausted in %s", m.cfg.MaxSteps, fr.fn)})
	}
}

func (m *Machine) visitInstr(fr *frame, instr ssa.Instruction) continuation {
	m.step(fr)
	fr.cur = instr
	switch instr := instr.(type) {
	case *ssa.DebugRef:
		// no-op

	case *ssa.UnOp:
		fr.set(instr, m.unop(fr, instr, fr.get(instr.X)))

	case *ssa.BinOp:
		fr.set(instr, m.binop(instr.Op, instr.X.Type(), fr.get(instr.X), fr.get(instr.Y)))

	case *ssa.Call:
		fn, args := m.prepareCall(fr, &instr.Call)
		fr.set(instr, m.call(fr, instr, fn, args))

	case *ssa.ChangeInterface:
		fr.set(instr, fr.get(instr.X))

	case *ssa.ChangeType:
		fr.set(instr, fr.get(instr.X))

	case *ssa.Convert:
		fr.set(instr, m.conv(instr.Type(), instr.X.Type(), fr.get(instr.X)))

	case *ssa.MultiConvert:
		fr.set(instr, m.conv(instr.Type(), instr.X.Type(), fr.get(instr.X)))

	case *ssa.SliceToArrayPointer:
		fr.set(instr, m.sliceToArrayPointer(instr.Type(), instr.X.Type(), fr.get(instr.X)))

	case *ssa.MakeInterface:
		fr.set(instr, iface{t: instr.X.Type(), v: fr.get(instr.X)})

	case *ssa.Extract:
		fr.set(instr, fr.get(instr.Tuple).(tuple)[instr.Index])

	case *ssa.Slice:
		fr.set(instr, m.sliceOp(fr, instr, fr.get(instr.X), fr.get(instr.Low), fr.get(instr.High), fr.get(instr.Max)))

	case *ssa.Return:
		switch len(instr.Results) {
		case 0:
		case 1:
			fr.result = fr.get(instr.Results[0])
		default:
			res := make([]value, 0, len(instr.Results))
			for _, r := range instr.Results {
				res = append(res, fr.get(r))
			}
			fr.result = tuple(res)
		}
		fr.block = nil
		return kReturn

	case *ssa.RunDefers:
		fr.runDefers()

	case *ssa.Panic:
		m.lastPanicStack = m.where(fr)
		panic(targetPanic{fr.get(instr.X)})

	case *ssa.Send:
		m.chanSend(fr.get(instr.Chan).(*Chan), fr.get(instr.X))

	case *ssa.Store:
		T := deref(instr.Addr.Type())
		switch p := fr.get(instr.Addr).(type) {
		case *value:
			if p == nil {
				m.panicRuntime("invalid memory address or nil pointer dereference")
			}
			store(T, p, fr.get(instr.Val))
		case *elemRef:
			m.storeElemRef(p, fr.get(instr.Val))
		default:
			m.unsupported(fmt.Sprintf("store through %T", p))
		}

	case *ssa.If:
		succ := 1
		if m.branch(fr.get(instr.Cond).(*Term), "if") {
			succ = 0
		}
		fr.prevBlock, fr.block = fr.block, fr.block.Succs[succ]
		return kJump

	case *ssa.Jump:
		fr.prevBlock, fr.block = fr.block, fr.block.Succs[0]
		return kJump

	case *ssa.Defer:
		fn, args := m.prepareCall(fr, &instr.Call)
		defers := &fr.defers
		if into := fr.get(instr.DeferStack); into != nil {
			defers = into.(**deferred)
		}
		*defers = &deferred{fn: fn, args: args, instr: instr, tail: *defers}

	case *ssa.Go:
		fn, args := m.prepareCall(fr, &instr.Call)
		m.spawn(fr, instr, fn, args)

	case *ssa.MakeChan:
		fr.set(instr, m.newChan(int(m.concInt(fr.get(instr.Size), "chan size")), instr.Type().Underlying().(*types.Chan).Elem()))

	case *ssa.Alloc:
		var addr *value
		if instr.Heap {
			addr = new(value)
			fr.set(instr, addr)
		} else {
			addr = fr.get(instr).(*value)
		}
		*addr = m.zero(deref(instr.Type()))

	case *ssa.MakeSlice:
		c := m.concInt(fr.get(instr.Cap), "make cap")
		l := m.concInt(fr.get(instr.Len), "make len")
		if l < 0 || c < l || c > 1<<26 {
			m.panicRuntime("makeslice: len out of range")
		}
		s := make([]value, c)
		tElt := instr.Type().Underlying().(*types.Slice).Elem()
		if isScalar(tElt) {
			z := m.zero(tElt)
			for i := range s {
				s[i] = z
			}
		} else {
			for i := range s {
				s[i] = m.zero(tElt)
			}
		}
		fr.set(instr, s[:l])

	case *ssa.MakeMap:
		mt := instr.Type().Underlying().(*types.Map)
		fr.set(instr, newMap(mt.Key(), mt.Elem()))

	case *ssa.Range:
		fr.set(instr, m.rangeIter(fr.get(instr.X)))

	case *ssa.Next:
		fr.set(instr, fr.get(instr.Iter).(iter).next())

	case *ssa.FieldAddr:
		switch p := fr.get(instr.X).(type) {
		case *value:
			if p == nil {
				m.panicRuntime("invalid memory address or nil pointer dereference")
			}
			fr.set(instr, &(*p).(structure)[instr.Field])
		case *elemRef:
			cp := m.concretizeRef(p)
			fr.set(instr, &(*cp).(structure)[instr.Field])
		case *opaque:
			// only values returned by declared no-op packages (loggers,
			// metrics) are opaque outside package initialisation
			fr.set(instr, &opaque{t: instr.Type(), from: p.from, noop: p.noop})
		default:
			panic(fmt.Sprintf("FieldAddr on %T", p))
		}

	case *ssa.Field:
		fr.set(instr, fr.get(instr.X).(structure)[instr.Field])

	case *ssa.IndexAddr:
		x := fr.get(instr.X)
		idx := fr.get(instr.Index).(*Term)
		var base []value
		var et types.Type
		switch x := x.(type) {
		case []value:
			base = x
			et = instr.X.Type().Underlying().(*types.Slice).Elem()
		case *value: // *array
			if x == nil {
				m.panicRuntime("invalid memory address or nil pointer dereference")
			}
			base = (*x).(array)
			et = deref(instr.X.Type()).Underlying().(*types.Array).Elem()
		default:
			panic(fmt.Sprintf("unexpected x type in IndexAddr: %T", x))
		}
		_, signed, _ := intInfo(instr.Index.Type())
		if i, ok := m.checkIndex(idx, signed, len(base)); ok {
			fr.set(instr, &base[i])
		} else {
			fr.set(instr, &elemRef{base: base, idx: idx, elem: et})
		}

	case *ssa.Index:
		x := fr.get(instr.X)
		idx := fr.get(instr.Index).(*Term)
		_, signed, _ := intInfo(instr.Index.Type())
		switch x := x.(type) {
		case array:
			et := instr.X.Type().Underlying().(*types.Array).Elem()
			if i, ok := m.checkIndex(idx, signed, len(x)); ok {
				fr.set(instr, copyVal(et, x[i]))
			} else {
				fr.set(instr, m.loadElemRef(&elemRef{base: x, idx: idx, elem: et}))
			}
		case string:
			if i, ok := m.checkIndex(idx, signed, len(x)); ok {
				fr.set(instr, m.mkU8(x[i]))
			} else {
				s := m.toSym(x)
				b := make([]value, len(s.b))
				for i := range b {
					b[i] = s.b[i]
				}
				fr.set(instr, m.loadElemRef(&elemRef{base: b, idx: idx, elem: types.Typ[types.Uint8]}))
			}
		case *SymString:
			if i, ok := m.checkIndex(idx, signed, len(x.b)); ok {
				fr.set(instr, x.b[i])
			} else {
				b := make([]value, len(x.b))
				for i := range b {
					b[i] = x.b[i]
				}
				fr.set(instr, m.loadElemRef(&elemRef{base: b, idx: idx, elem: types.Typ[types.Uint8]}))
			}
		default:
			panic(fmt.Sprintf("unexpected x type in Index: %T", x))
		}

	case *ssa.Lookup:
		fr.set(instr, m.lookup(instr, fr.get(instr.X), fr.get(instr.Index)))

	case *ssa.MapUpdate:
		mp := fr.get(instr.Map).(*Map)
		mt := instr.Map.Type().Underlying().(*types.Map)
		m.mapInsert(mp, copyVal(mt.Key(), fr.get(instr.Key)), copyVal(mt.Elem(), fr.get(instr.Value)))

	case *ssa.TypeAssert:
		fr.set(instr, m.typeAssert(instr, fr.get(instr.X).(iface)))

	case *ssa.MakeClosure:
		bindings := make([]value, 0, len(instr.Bindings))
		for _, binding := range instr.Bindings {
			bindings = append(bindings, fr.get(binding))
		}
		fr.set(instr, &closure{instr.Fn.(*ssa.Function), bindings})

	case *ssa.Phi:
		panic("unreachable: phi")

	case *ssa.Select:
		fr.set(instr, m.selectOp(fr, instr))

	default:
		panic(fmt.Sprintf("unexpected instruction: %T", instr))
	}
	return kNext
}

// checkIndex bounds-checks idx against n. For a constant index it returns
// (i,true) or panics; for a symbolic index it forks on the bounds check and
// returns ok=false on the in-range side (caller builds an ite access), unless
// n is 1 where the index is forced.
func (m *Machine) checkIndex(idx *Term, signed bool, n int) (int, bool) {
	if idx.IsConst() {
		var i int64
		if signed {
			i = idx.Int()
		} else {
			if idx.Uint() > 1<<62 {
				i = -1
			} else {
				i = int64(idx.Uint())
			}
		}
		if i < 0 || i >= int64(n) {
			m.panicRuntime(fmt.Sprintf("index out of range [%d] with length %d", i, n))
		}
		return int(i), true
	}
	inRange := m.ts.Ult(idx, m.ts.BV(idx.w, uint64(n)))
	if n == 0 {
		inRange = m.ts.False
	}
	if !m.branch(inRange, "bounds") {
		if d := os.Getenv("SYMGO_DUMP"); d != "" {
			os.WriteFile(fmt.Sprintf("%s/oob-%d.smt2", d, len(m.decs)), []byte(m.script([]*Term{inRange}, nil, "")), 0o644)
		}
		m.panicRuntime(fmt.Sprintf("index out of range [sym] with length %d", n))
	}
	if n == 1 {
		return 0, true
	}
	return 0, false
}

// concretizeRef forks over the possible values of a symbolic element index
// and returns a real pointer.
func (m *Machine) concretizeRef(p *elemRef) *value {
	for i := 0; i < len(p.base)-1; i++ {
		if m.branch(m.ts.Eq(p.idx, m.ts.BV(p.idx.w, uint64(i))), "elemidx") {
			return &p.base[i]
		}
	}
	return &p.base[len(p.base)-1]
}

func (m *Machine) lookup(instr *ssa.Lookup, x, idx value) value {
	switch x := x.(type) {
	case *Map:
		mt := instr.X.Type().Underlying().(*types.Map)
		v, ok := m.mapLookup(x, idx)
		if ok {
			v = copyVal(mt.Elem(), v)
		} else {
			v = m.zero(mt.Elem())
		}
		if instr.CommaOk {
			return tuple{v, m.ts.Bool(ok)}
		}
		return v
	case string:
		it := idx.(*Term)
		_, signed, _ := intInfo(instr.Index.Type())
		if i, ok := m.checkIndex(it, signed, len(x)); ok {
			return m.mkU8(x[i])
		}
		s := m.toSym(x)
		b := make([]value, len(s.b))
		for i := range b {
			b[i] = s.b[i]
		}
		return m.loadElemRef(&elemRef{base: b, idx: it, elem: types.Typ[types.Uint8]})
	case *SymString:
		it := idx.(*Term)
		_, signed, _ := intInfo(instr.Index.Type())
		if i, ok := m.checkIndex(it, signed, len(x.b)); ok {
			return x.b[i]
		}
		b := make([]value, len(x.b))
		for i := range b {
			b[i] = x.b[i]
		}
		return m.loadElemRef(&elemRef{base: b, idx: it, elem: types.Typ[types.Uint8]})
	}
	panic(fmt.Sprintf("unexpected x type in Lookup: %T", x))
}

func (m *Machine) prepareCall(fr *frame, call *ssa.CallCommon) (fn value, args []value) {
	v := fr.get(call.Value)
	if call.Method == nil {
		fn = v
	} else {
		recv := v.(iface)
		if recv.t == nil {
			m.panicRuntime("invalid memory address or nil pointer dereference (method call on nil interface)")
		}
		if op, ok := recv.v.(*opaque); ok {
			fn = &opaqueMethod{op, call.Method}
		} else if f := m.lookupMethod(recv.t, call.Method); f == nil {
			panic(fmt.Sprintf("method set for dynamic type %v does not contain %s", recv.t, call.Method))
		} else {
			fn = f
		}
		args = append(args, recv.v)
	}
	for _, arg := range call.Args {
		args = append(args, fr.get(arg))
	}
	return
}

type opaqueMethod struct {
	o    *opaque
	meth *types.Func
}

func (m *Machine) call(caller *frame, site ssa.Instruction, fn value, args []value) value {
	switch fn := fn.(type) {
	case *ssa.Function:
		if fn == nil {
			if ci, ok := site.(ssa.CallInstruction); ok && m.lenient {
				// package initialisation calling a function variable of a
				// package that has no source here
				return m.externalResult(ci.Common().Signature(), "nil function variable", false)
			}
			m.panicRuntime("invalid memory address or nil pointer dereference (call of nil func)")
		}
		return m.callSSA(caller, site, fn, args, nil)
	case *closure:
		if fn == nil {
			m.panicRuntime("invalid memory address or nil pointer dereference (call of nil func)")
		}
		return m.callSSA(caller, site, fn.Fn, args, fn.Env)
	case *ssa.Builtin:
		ci, _ := site.(ssa.CallInstruction)
		return m.callBuiltin(caller, ci, fn, args)
	case *opaqueMethod:
		msig := fn.meth.Type().(*types.Signature)
		if fn.o.from == "reflectlite.TypeOf" && fn.meth.Name() == "Comparable" {
			return m.ts.Bool(true)
		}
		m.passCtx = ctxArg(msig, args)
		r := m.externalResult(msig, "method "+fn.meth.FullName()+" on opaque from "+fn.o.from, fn.o.noop)
		m.passCtx = nil
		return r
	case *nativeFn:
		return fn.f(m, caller, args)
	}
	panic(fmt.Sprintf("cannot call %T", fn))
}

// nativeFn is a function value implemented by the engine (e.g. context
// cancel funcs).
type nativeFn struct {
	name string
	f    func(m *Machine, caller *frame, args []value) value
}

func (p *Program) info(fn *ssa.Function) *fnInfo {
	p.mu.Lock()
	fi := p.infos[fn]
	if fi == nil {
		fi = &fnInfo{name: fn.String()}
		p.infos[fn] = fi
	}
	p.mu.Unlock()
	fi.once.Do(func() {
		name := fi.name
		if fn.Origin() != nil {
			// instantiated generic: also try the origin's name
			if r := p.resolve(fn.Origin().String(), fn); r != nil {
				fi.intr, fi.repl, fi.noop = r.intr, r.repl, r.noop
			}
		}
		if fi.intr == nil && fi.repl == nil && !fi.noop {
			if r := p.resolve(name, fn); r != nil {
				fi.intr, fi.repl, fi.noop = r.intr, r.repl, r.noop
			}
		}
		if fn.Blocks != nil {
			regs := map[ssa.Value]int{}
			n := 0
			for _, v := range fn.Params {
				regs[v] = n
				n++
			}
			for _, v := range fn.FreeVars {
				regs[v] = n
				n++
			}
			for _, b := range fn.Blocks {
				for _, in := range b.Instrs {
					fi.nInstr++
					if v, ok := in.(ssa.Value); ok {
						regs[v] = n
						n++
					}
				}
			}
			fi.regs, fi.nregs = regs, n
		}
	})
	return fi
}

type resolved struct {
	intr intrinsic
	repl *ssa.Function
	noop bool
}

func (m *Machine) callSSA(caller *frame, site ssa.Instruction, fn *ssa.Function, args []value, env []value) value {
	fi := m.P.info(fn)
	if fi.repl != nil && !m.inRepl(caller, fi.repl) {
		return m.callSSA(caller, site, fi.repl, args, nil)
	}
	if fi.intr != nil {
		fr := &frame{m: m, t: m.cur, caller: caller, fn: fn, info: fi}
		return fi.intr(fr, args)
	}
	if fn.Blocks == nil || fi.noop {
		if fi.noop {
			m.passCtx = ctxArg(fn.Signature, args)
			r := m.externalResult(fn.Signature, fn.String(), true)
			m.passCtx = nil
			return r
		}
		return m.externalResult(fn.Signature, fn.String(), false)
	}
	if fn.TypeParams().Len() > 0 && len(fn.TypeArgs()) == 0 {
		m.unsupported("uninstantiated generic function " + fn.String())
	}
	depth := 0
	if caller != nil {
		depth = caller.depth + 1
	}
	if depth > m.cfg.MaxDepth {
		panic(engineAbort{abortBudget, fmt.Sprintf("call depth %d exceeded at %s", m.cfg.MaxDepth, fn)})
	}
	m.noteFunc(fn, fi)
	fr := &frame{m: m, t: m.cur, caller: caller, fn: fn, info: fi, depth: depth}
	fr.env = make([]value, fi.nregs)
	fr.block = fn.Blocks[0]
	fr.locals = make([]value, len(fn.Locals))
	for i, l := range fn.Locals {
		fr.locals[i] = m.zero(deref(l.Type()))
		fr.env[fi.regs[l]] = &fr.locals[i]
	}
	for i, p := range fn.Params {
		fr.env[fi.regs[p]] = args[i]
	}
	for i, fv := range fn.FreeVars {
		fr.env[fi.regs[fv]] = env[i]
	}
	th := m.cur
	th.top = fr
	for fr.block != nil {
		m.runFrame(fr)
		m.cur.top = fr
	}
	th.top = caller
	return fr.result
}

// inRepl reports whether repl is already on the call stack (so a
// replacement may call the original).
func (m *Machine) inRepl(caller *frame, repl *ssa.Function) bool {
	for f := caller; f != nil; f = f.caller {
		if f.fn == repl {
			return true
		}
	}
	return false
}

func (m *Machine) zeroResult(sig *types.Signature) value {
	res := sig.Results()
	switch res.Len() {
	case 0:
		return nil
	case 1:
		return m.zero(res.At(0).Type())
	}
	t := make(tuple, res.Len())
	for i := range t {
		t[i] = m.zero(res.At(i).Type())
	}
	return t
}

// externalResult is what a call to a body-less, unmodelled function yields:
// in lenient mode (package initialisation) opaque values; otherwise the path
// is aborted as unsupported.
func (m *Machine) externalResult(sig *types.Signature, name string, noop bool) value {
	if !m.lenient && !noop {
		m.unsupported("unsupported external: " + name)
	}
	res := sig.Results()
	mk := func(t types.Type) value {
		switch t.Underlying().(type) {
		case *types.Pointer:
			return &opaque{t: t, from: name, noop: noop}
		case *types.Interface:
			if types.Identical(t, errorType) {
				return iface{}
			}
			// a no-op that returns a context (tracer.Start, log/metric
			// helpers) hands back the context it was given
			if isContextType(t) && m.passCtx != nil {
				return m.passCtx
			}
			return iface{t: t, v: &opaque{t: t, from: name, noop: noop}}
		}
		return m.zero(t)
	}
	switch res.Len() {
	case 0:
		return nil
	case 1:
		return mk(res.At(0).Type())
	}
	t := make(tuple, res.Len())
	for i := range t {
		t[i] = mk(res.At(i).Type())
	}
	return t
}

func (m *Machine) runFrame(fr *frame) {
	defer func() {
		if fr.block == nil {
			return // normal return
		}
		r := recover()
		switch p := r.(type) {
		case engineAbort:
			panic(p)
		case targetPanic:
		case runtime.Error:
			// an interpreter bug or unmodelled situation, not a target panic
			buf := make([]byte, 4096)
			buf = buf[:runtime.Stack(buf, false)]
			panic(engineAbort{abortUnsupported, fmt.Sprintf("engine fault in %s: %v\n%s", fr.fn, p, buf)})
		case string:
			panic(engineAbort{abortUnsupported, fmt.Sprintf("engine fault in %s: %s", fr.fn, p)})
		default:
			panic(engineAbort{abortUnsupported, fmt.Sprintf("engine fault in %s: %v", fr.fn, p)})
		}
		fr.panicking = true
		fr.panic = r
		fr.runDefers()
		fr.block = fr.fn.Recover
		if fr.block == nil {
			// recovered, no named results: return zero values
			fr.result = m.zeroResult(fr.fn.Signature)
		}
	}()

	for {
		nonPhis := m.executePhis(fr)
		for _, instr := range nonPhis {
			if m.visitInstr(fr, instr) == kReturn {
				return
			}
		}
	}
}

func (m *Machine) executePhis(fr *frame) []ssa.Instruction {
	firstNonPhi := -1
	for i, instr := range fr.block.Instrs {
		if _, ok := instr.(*ssa.Phi); !ok {
			firstNonPhi = i
			break
		}
	}
	nonPhis := fr.block.Instrs[firstNonPhi:]
	if firstNonPhi > 0 {
		phis := fr.block.Instrs[:firstNonPhi]
		predIndex := slices.Index(fr.block.Preds, fr.prevBlock)
		fr.phitemps = fr.phitemps[:0]
		for _, phi := range phis {
			phi := phi.(*ssa.Phi)
			fr.phitemps = append(fr.phitemps, fr.get(phi.Edges[predIndex]))
		}
		for i, phi := range phis {
			fr.set(phi.(*ssa.Phi), fr.phitemps[i])
		}
	}
	return nonPhis
}

func (m *Machine) doRecover(caller *frame) value {
	if caller != nil && !caller.panicking &&
		caller.caller != nil && caller.caller.panicking {
		caller.caller.panicking = false
		p := caller.caller.panic
		caller.caller.panic = nil
		switch p := p.(type) {
		case targetPanic:
			return p.v
		default:
			panic(fmt.Sprintf("unexpected panic type %T in target call to recover()", p))
		}
	}
	return iface{}
}

func (m *Machine) unsupported(msg string) {
	panic(engineAbort{abortUnsupported, msg})
}

func (m *Machine) where(fr *frame) string {
	var sb strings.Builder
	for f, n := fr, 0; f != nil && n < 12; f, n = f.caller, n+1 {
		fmt.Fprintf(&sb, "\n    %s", f.fn)
		if f.cur != nil {
			if p := f.cur.Pos(); p != token.NoPos {
				fmt.Fprintf(&sb, " (%s)", m.P.Prog.Fset.Position(p))
			} else {
				fmt.Fprintf(&sb, " [%s]", f.cur)
			}
		}
	}
	return sb.String()
}

func (m *Machine) pos(p token.Pos) string {
	if p == token.NoPos {
		return ""
	}
	return m.P.Prog.Fset.Position(p).String()
}
