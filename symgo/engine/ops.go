package engine

import (
	"fmt"
	"go/constant"
	"go/token"
	"go/types"
	"math"
	"strings"
	"unicode/utf8"

	"golang.org/x/tools/go/ssa"
)

// If the target program panics, the interpreter panics with this type.
type targetPanic struct {
	v value
}

func (p targetPanic) String() string { return toString(p.v) }

func (m *Machine) constValue(c *ssa.Const) value {
	if c.Value == nil {
		return m.zero(c.Type()) // typed zero
	}
	if t, ok := c.Type().Underlying().(*types.Basic); ok {
		if w, signed, ok := intInfo(t); ok {
			if w == 0 {
				return m.ts.Bool(constant.BoolVal(c.Value))
			}
			if signed {
				return m.ts.BV(w, uint64(c.Int64()))
			}
			return m.ts.BV(w, c.Uint64())
		}
		switch t.Kind() {
		case types.Float32:
			return float32(c.Float64())
		case types.Float64, types.UntypedFloat:
			return c.Float64()
		case types.Complex64:
			return complex64(c.Complex128())
		case types.Complex128, types.UntypedComplex:
			return c.Complex128()
		case types.String, types.UntypedString:
			if c.Value.Kind() == constant.String {
				return constant.StringVal(c.Value)
			}
			return string(rune(c.Int64()))
		}
	}
	panic(fmt.Sprintf("constValue: %s", c))
}

func (m *Machine) mkInt(v int64) *Term   { return m.ts.BV(64, uint64(v)) }
func (m *Machine) mkBool(b bool) *Term   { return m.ts.Bool(b) }
func (m *Machine) mkU8(b byte) *Term     { return m.ts.BV(8, uint64(b)) }
func (m *Machine) runtimeError(s string) value {
	return iface{t: m.runtimeErrorT, v: "runtime error: " + s}
}

func (m *Machine) panicRuntime(s string) {
	if m.cur != nil {
		m.lastPanicStack = m.where(m.cur.top)
	}
	panic(targetPanic{m.runtimeError(s)})
}

// concInt requires a concrete integer (e.g. lengths, capacities). A symbolic
// one is resolved by forking over the feasible values when small-domain,
// otherwise the path is aborted as unsupported.
func (m *Machine) concInt(v value, what string) int64 {
	t := v.(*Term)
	if t.IsConst() {
		return t.Int()
	}
	return m.concretize(t, what)
}

func (m *Machine) concUint(v value, what string) uint64 {
	t := v.(*Term)
	if t.IsConst() {
		return t.Uint()
	}
	return uint64(m.concretize(t, what))
}

func (m *Machine) binop(op token.Token, t types.Type, x, y value) value {
	ts := m.ts
	switch x := x.(type) {
	case *Term:
		if op == token.SHL || op == token.SHR {
			return m.shift(op, t, x, y.(*Term))
		}
		yt, ok := y.(*Term)
		if !ok {
			break
		}
		w, signed, _ := intInfo(t)
		if x.w == 0 {
			switch op {
			case token.EQL:
				return ts.Eq(x, yt)
			case token.NEQ:
				return ts.BNot(ts.Eq(x, yt))
			case token.AND, token.LAND:
				return ts.BAnd(x, yt)
			case token.OR, token.LOR:
				return ts.BOr(x, yt)
			}
			break
		}
		_ = w
		switch op {
		case token.ADD:
			return ts.Add(x, yt)
		case token.SUB:
			return ts.Sub(x, yt)
		case token.MUL:
			return ts.Mul(x, yt)
		case token.QUO, token.REM:
			z := ts.Eq(yt, ts.BV(yt.w, 0))
			if m.branch(z, "divzero") {
				m.panicRuntime("integer divide by zero")
			}
			if signed {
				if op == token.QUO {
					return ts.SDiv(x, yt)
				}
				return ts.SRem(x, yt)
			}
			if op == token.QUO {
				return ts.UDiv(x, yt)
			}
			return ts.URem(x, yt)
		case token.AND:
			return ts.And(x, yt)
		case token.OR:
			return ts.Or(x, yt)
		case token.XOR:
			return ts.Xor(x, yt)
		case token.AND_NOT:
			return ts.And(x, ts.BvNot(yt))
		case token.EQL:
			return ts.Eq(x, yt)
		case token.NEQ:
			return ts.BNot(ts.Eq(x, yt))
		case token.LSS:
			if signed {
				return ts.Slt(x, yt)
			}
			return ts.Ult(x, yt)
		case token.LEQ:
			if signed {
				return ts.Sle(x, yt)
			}
			return ts.Ule(x, yt)
		case token.GTR:
			if signed {
				return ts.Slt(yt, x)
			}
			return ts.Ult(yt, x)
		case token.GEQ:
			if signed {
				return ts.Sle(yt, x)
			}
			return ts.Ule(yt, x)
		}
	case float64:
		y := y.(float64)
		switch op {
		case token.ADD:
			return x + y
		case token.SUB:
			return x - y
		case token.MUL:
			return x * y
		case token.QUO:
			return x / y
		case token.EQL:
			return ts.Bool(x == y)
		case token.NEQ:
			return ts.Bool(x != y)
		case token.LSS:
			return ts.Bool(x < y)
		case token.LEQ:
			return ts.Bool(x <= y)
		case token.GTR:
			return ts.Bool(x > y)
		case token.GEQ:
			return ts.Bool(x >= y)
		}
	case float32:
		y := y.(float32)
		switch op {
		case token.ADD:
			return x + y
		case token.SUB:
			return x - y
		case token.MUL:
			return x * y
		case token.QUO:
			return x / y
		case token.EQL:
			return ts.Bool(x == y)
		case token.NEQ:
			return ts.Bool(x != y)
		case token.LSS:
			return ts.Bool(x < y)
		case token.LEQ:
			return ts.Bool(x <= y)
		case token.GTR:
			return ts.Bool(x > y)
		case token.GEQ:
			return ts.Bool(x >= y)
		}
	case string:
		switch y := y.(type) {
		case string:
			switch op {
			case token.ADD:
				return x + y
			case token.EQL:
				return ts.Bool(x == y)
			case token.NEQ:
				return ts.Bool(x != y)
			case token.LSS:
				return ts.Bool(x < y)
			case token.LEQ:
				return ts.Bool(x <= y)
			case token.GTR:
				return ts.Bool(x > y)
			case token.GEQ:
				return ts.Bool(x >= y)
			}
		case *SymString:
			return m.symStrOp(op, m.toSym(x), y)
		}
	case *SymString:
		return m.symStrOp(op, x, m.toSym(y))
	}
	switch op {
	case token.EQL:
		return m.eqnil(t, x, y)
	case token.NEQ:
		return ts.BNot(m.eqnil(t, x, y))
	}
	panic(fmt.Sprintf("invalid binary op: %T %s %T", x, op, y))
}

func (m *Machine) symStrOp(op token.Token, x, y *SymString) value {
	ts := m.ts
	switch op {
	case token.ADD:
		b := make([]*Term, 0, len(x.b)+len(y.b))
		b = append(append(b, x.b...), y.b...)
		return normStr(&SymString{b})
	case token.EQL:
		return m.symStrEq(x, y)
	case token.NEQ:
		return ts.BNot(m.symStrEq(x, y))
	case token.LSS, token.LEQ, token.GTR, token.GEQ:
		// lexicographic compare, built from the tail
		n := len(x.b)
		if len(y.b) < n {
			n = len(y.b)
		}
		// lt: x<y ; eqp: prefixes equal so far
		var lt *Term
		if len(x.b) < len(y.b) {
			lt = ts.True
		} else {
			lt = ts.False
		}
		eq := ts.Bool(len(x.b) == len(y.b))
		for i := n - 1; i >= 0; i-- {
			l := ts.Ult(x.b[i], y.b[i])
			e := ts.Eq(x.b[i], y.b[i])
			lt = ts.BOr(l, ts.BAnd(e, lt))
			eq = ts.BAnd(e, eq)
		}
		switch op {
		case token.LSS:
			return lt
		case token.LEQ:
			return ts.BOr(lt, eq)
		case token.GTR:
			return ts.BNot(ts.BOr(lt, eq))
		default:
			return ts.BNot(lt)
		}
	}
	panic("invalid string op " + op.String())
}

// shift implements Go's shift semantics: counts >= width give 0 (or sign
// fill); negative signed counts panic.
func (m *Machine) shift(op token.Token, t types.Type, x, y *Term) value {
	ts := m.ts
	_, signed, _ := intInfo(t)
	w := x.w
	// normalise the count to x's width, saturating
	var cnt *Term
	if y.w == w {
		cnt = y
	} else if y.w < w {
		cnt = ts.ZExt(y, w)
	} else {
		big := ts.Ule(ts.BV(y.w, uint64(w)), y)
		cnt = ts.Ite(big, ts.BV(w, uint64(w)), ts.Extract(y, w-1, 0))
	}
	if op == token.SHL {
		return ts.Shl(x, cnt)
	}
	if signed {
		return ts.AShr(x, cnt)
	}
	return ts.LShr(x, cnt)
}

// eqnil: equality where reference types may be compared to nil.
func (m *Machine) eqnil(t types.Type, x, y value) *Term {
	switch t.Underlying().(type) {
	case *types.Map:
		return m.ts.Bool((x.(*Map) == nil) == (y.(*Map) == nil) && (x.(*Map) == nil || x.(*Map) == y.(*Map)))
	case *types.Signature:
		return m.ts.Bool(isNilFunc(x) == isNilFunc(y))
	case *types.Slice:
		return m.ts.Bool((x.([]value) == nil) == (y.([]value) == nil))
	}
	return m.equals(t, x, y)
}

func isNilFunc(v value) bool {
	switch f := v.(type) {
	case *ssa.Function:
		return f == nil
	case *closure:
		return f == nil
	case *ssa.Builtin:
		return f == nil
	}
	return false
}

func (m *Machine) unop(fr *frame, instr *ssa.UnOp, x value) value {
	ts := m.ts
	switch instr.Op {
	case token.ARROW: // receive
		return m.chanRecv(x.(*Chan), instr.X.Type().Underlying().(*types.Chan).Elem(), instr.CommaOk)
	case token.SUB:
		switch x := x.(type) {
		case *Term:
			return ts.Neg(x)
		case float32:
			return -x
		case float64:
			return -x
		}
	case token.MUL:
		switch p := x.(type) {
		case *value:
			if p == nil {
				m.panicRuntime("invalid memory address or nil pointer dereference")
			}
			return load(deref(instr.X.Type()), p)
		case *elemRef:
			return m.loadElemRef(p)
		case *opaque:
			m.unsupported("dereference of opaque external value from " + p.from)
		}
	case token.NOT:
		return ts.BNot(x.(*Term))
	case token.XOR:
		return ts.BvNot(x.(*Term))
	}
	panic(fmt.Sprintf("invalid unary op %s %T", instr.Op, x))
}

// loadElemRef reads base[idx] as an ite-chain.
func (m *Machine) loadElemRef(p *elemRef) value {
	n := len(p.base)
	if !mergeable(p.elem) {
		return load(p.elem, m.concretizeRef(p))
	}
	res := p.base[n-1]
	for i := n - 2; i >= 0; i-- {
		c := m.ts.Eq(p.idx, m.ts.BV(p.idx.w, uint64(i)))
		res = m.iteValue(p.elem, c, p.base[i], res)
	}
	return res
}

// mergeable reports whether values of type T can be combined under a
// symbolic condition (integers/bools and aggregates of them).
func mergeable(T types.Type) bool {
	switch u := T.Underlying().(type) {
	case *types.Basic:
		_, _, ok := intInfo(u)
		return ok
	case *types.Struct:
		for i := 0; i < u.NumFields(); i++ {
			if !mergeable(u.Field(i).Type()) {
				return false
			}
		}
		return true
	case *types.Array:
		return mergeable(u.Elem())
	}
	return false
}

func (m *Machine) storeElemRef(p *elemRef, v value) {
	if !mergeable(p.elem) {
		store(p.elem, m.concretizeRef(p), v)
		return
	}
	for i := range p.base {
		c := m.ts.Eq(p.idx, m.ts.BV(p.idx.w, uint64(i)))
		p.base[i] = m.iteValue(p.elem, c, v, p.base[i])
	}
}

// iteValue merges two values of type T under condition c. Only scalars and
// aggregates of scalars can be merged.
func (m *Machine) iteValue(T types.Type, c *Term, a, b value) value {
	if c.IsTrue() {
		return a
	}
	if c.IsFalse() {
		return b
	}
	switch a := a.(type) {
	case *Term:
		return m.ts.Ite(c, a, b.(*Term))
	case structure:
		st := T.Underlying().(*types.Struct)
		bs := b.(structure)
		r := make(structure, len(a))
		for i := range a {
			r[i] = m.iteValue(st.Field(i).Type(), c, a[i], bs[i])
		}
		return r
	case array:
		et := T.Underlying().(*types.Array).Elem()
		bs := b.(array)
		r := make(array, len(a))
		for i := range a {
			r[i] = m.iteValue(et, c, a[i], bs[i])
		}
		return r
	}
	if eq := m.equals(T, a, b); eq.IsTrue() {
		return a
	}
	m.unsupported(fmt.Sprintf("cannot merge values of type %s under a symbolic condition", T))
	return nil
}

func (m *Machine) typeAssert(instr *ssa.TypeAssert, itf iface) value {
	var v value
	err := ""
	if itf.t == nil {
		err = fmt.Sprintf("interface conversion: interface is nil, not %s", instr.AssertedType)
	} else if idst, ok := instr.AssertedType.Underlying().(*types.Interface); ok {
		v = itf
		if meth, _ := types.MissingMethod(itf.t, idst, true); meth != nil {
			err = fmt.Sprintf("interface conversion: %v is not %v: missing method %s", itf.t, idst, meth.Name())
		}
	} else if types.Identical(itf.t, instr.AssertedType) {
		v = itf.v
	} else {
		err = fmt.Sprintf("interface conversion: interface is %s, not %s", itf.t, instr.AssertedType)
	}
	if err != "" {
		if !instr.CommaOk {
			m.panicRuntime(err)
		}
		return tuple{m.zero(instr.AssertedType), m.ts.False}
	}
	if instr.CommaOk {
		return tuple{v, m.ts.True}
	}
	return v
}

func (m *Machine) sliceOp(fr *frame, instr *ssa.Slice, x, lo, hi, max value) value {
	var Len, Cap int
	switch x := x.(type) {
	case string:
		Len = len(x)
	case *SymString:
		Len = len(x.b)
	case []value:
		Len = len(x)
		Cap = cap(x)
	case *value: // *array
		if x == nil {
			m.panicRuntime("slice of nil array pointer")
		}
		a := (*x).(array)
		Len = len(a)
		Cap = cap(a)
	}
	l := 0
	if lo != nil {
		l = int(m.concInt(lo, "slice low bound"))
	}
	h := Len
	if hi != nil {
		h = int(m.concInt(hi, "slice high bound"))
	}
	var mx int
	if max != nil {
		mx = int(m.concInt(max, "slice max bound"))
	}
	switch x := x.(type) {
	case string:
		if l < 0 || h < l || h > Len {
			m.panicRuntime(fmt.Sprintf("slice bounds out of range [%d:%d] with length %d", l, h, Len))
		}
		return x[l:h]
	case *SymString:
		if l < 0 || h < l || h > Len {
			m.panicRuntime(fmt.Sprintf("slice bounds out of range [%d:%d] with length %d", l, h, Len))
		}
		return normStr(&SymString{x.b[l:h]})
	case []value:
		if max == nil {
			if l < 0 || h < l || h > Cap {
				m.panicRuntime(fmt.Sprintf("slice bounds out of range [%d:%d] with capacity %d", l, h, Cap))
			}
			if x == nil {
				return x
			}
			return x[l:h]
		}
		if l < 0 || h < l || mx < h || mx > Cap {
			m.panicRuntime(fmt.Sprintf("slice bounds out of range [%d:%d:%d] with capacity %d", l, h, mx, Cap))
		}
		if x == nil {
			return x
		}
		return x[l:h:mx]
	case *value:
		a := (*x).(array)
		if max == nil {
			if l < 0 || h < l || h > Cap {
				m.panicRuntime(fmt.Sprintf("slice bounds out of range [%d:%d] with capacity %d", l, h, Cap))
			}
			return []value(a)[l:h]
		}
		if l < 0 || h < l || mx < h || mx > Cap {
			m.panicRuntime(fmt.Sprintf("slice bounds out of range [%d:%d:%d] with capacity %d", l, h, mx, Cap))
		}
		return []value(a)[l:h:mx]
	}
	panic(fmt.Sprintf("slice: unexpected X type: %T", x))
}

// conv converts the value x of type t_src to type t_dst.
func (m *Machine) conv(t_dst, t_src types.Type, x value) value {
	ts := m.ts
	ut_src := t_src.Underlying()
	ut_dst := t_dst.Underlying()

	switch ut_src := ut_src.(type) {
	case *types.Pointer:
		if b, ok := ut_dst.(*types.Basic); ok && b.Kind() == types.UnsafePointer {
			return x
		}
		if _, ok := ut_dst.(*types.Pointer); ok {
			return x
		}
	case *types.Slice:
		// []byte or []rune -> string
		eb, _ := ut_src.Elem().Underlying().(*types.Basic)
		if eb == nil {
			break
		}
		switch eb.Kind() {
		case types.Byte:
			xs := x.([]value)
			b := make([]*Term, len(xs))
			for i := range xs {
				b[i] = xs[i].(*Term)
			}
			return normStr(&SymString{b})
		case types.Rune:
			xs := x.([]value)
			r := make([]rune, 0, len(xs))
			for i := range xs {
				r = append(r, rune(m.concInt(xs[i], "rune to string")))
			}
			return string(r)
		}
	case *types.Basic:
		// string source
		switch s := x.(type) {
		case string:
			switch ut_dst := ut_dst.(type) {
			case *types.Slice:
				switch ut_dst.Elem().Underlying().(*types.Basic).Kind() {
				case types.Rune:
					var res []value
					for _, r := range s {
						res = append(res, ts.BV(32, uint64(r)))
					}
					return res
				case types.Byte:
					res := make([]value, len(s))
					for i := 0; i < len(s); i++ {
						res[i] = ts.BV(8, uint64(s[i]))
					}
					return res
				}
			case *types.Basic:
				if ut_dst.Kind() == types.String {
					return s
				}
			}
		case *SymString:
			switch ut_dst := ut_dst.(type) {
			case *types.Slice:
				if ut_dst.Elem().Underlying().(*types.Basic).Kind() == types.Byte {
					res := make([]value, len(s.b))
					for i := range s.b {
						res[i] = s.b[i]
					}
					return res
				}
			case *types.Basic:
				if ut_dst.Kind() == types.String {
					return s
				}
			}
			m.unsupported("conversion of symbolic string to " + t_dst.String())
		}
		if ut_src.Kind() == types.UnsafePointer {
			if _, ok := ut_dst.(*types.Pointer); ok {
				return x
			}
			if b, ok := ut_dst.(*types.Basic); ok && b.Kind() == types.Uintptr {
				m.unsupported("unsafe.Pointer to uintptr")
			}
			return x
		}
		db, ok := ut_dst.(*types.Basic)
		if !ok {
			break
		}
		sw, ssigned, sint := intInfo(ut_src)
		dw, dsigned, dint := intInfo(db)
		if sint && sw > 0 {
			xt := x.(*Term)
			if db.Kind() == types.String {
				r := rune(m.concInt(x, "integer to string"))
				if !ssigned {
					r = rune(xt.Uint())
				}
				return string(r)
			}
			if dint && dw > 0 {
				if dw <= sw {
					return ts.Extract(xt, dw-1, 0)
				}
				if ssigned {
					return ts.SExt(xt, dw)
				}
				return ts.ZExt(xt, dw)
			}
			// int -> float
			_ = dsigned
			if !xt.IsConst() {
				m.unsupported("symbolic integer converted to float")
			}
			var f float64
			if ssigned {
				f = float64(xt.Int())
			} else {
				f = float64(xt.Uint())
			}
			switch db.Kind() {
			case types.Float32:
				return float32(f)
			case types.Float64:
				return f
			}
		}
		if sint && sw == 0 && dint && dw == 0 {
			return x
		}
		var f float64
		isF := false
		switch xf := x.(type) {
		case float32:
			f, isF = float64(xf), true
		case float64:
			f, isF = xf, true
		}
		if isF {
			switch db.Kind() {
			case types.Float32:
				return float32(f)
			case types.Float64:
				return f
			}
			if dint && dw > 0 {
				if dsigned {
					return ts.BV(dw, uint64(int64(f)))
				}
				if f < 0 {
					return ts.BV(dw, uint64(int64(f)))
				}
				if f >= math.MaxInt64 {
					return ts.BV(dw, uint64(f))
				}
				return ts.BV(dw, uint64(f))
			}
		}
		switch xc := x.(type) {
		case complex128:
			if db.Kind() == types.Complex64 {
				return complex64(xc)
			}
			return xc
		case complex64:
			if db.Kind() == types.Complex128 {
				return complex128(xc)
			}
			return xc
		}
	}
	panic(fmt.Sprintf("unsupported conversion: %s  -> %s, dynamic type %T", t_src, t_dst, x))
}

func (m *Machine) sliceToArrayPointer(t_dst, t_src types.Type, x value) value {
	if _, ok := t_src.Underlying().(*types.Slice); ok {
		if ptr, ok := t_dst.Underlying().(*types.Pointer); ok {
			if arr, ok := ptr.Elem().Underlying().(*types.Array); ok {
				x := x.([]value)
				if arr.Len() > int64(len(x)) {
					m.panicRuntime("cannot convert slice with length smaller than array length")
				}
				if x == nil {
					return m.zero(t_dst)
				}
				v := value(array(x[:arr.Len():arr.Len()]))
				return &v
			}
		}
	}
	panic(fmt.Sprintf("unsupported conversion: %s  -> %s, dynamic type %T", t_src, t_dst, x))
}

func (m *Machine) callBuiltin(caller *frame, callInstr ssa.CallInstruction, fn *ssa.Builtin, args []value) value {
	ts := m.ts
	switch fn.Name() {
	case "append":
		if len(args) == 1 {
			return args[0]
		}
		arg0 := args[0].([]value)
		switch s := args[1].(type) {
		case string:
			for i := 0; i < len(s); i++ {
				arg0 = append(arg0, value(ts.BV(8, uint64(s[i]))))
			}
			return arg0
		case *SymString:
			for _, b := range s.b {
				arg0 = append(arg0, value(b))
			}
			return arg0
		}
		src := args[1].([]value)
		if len(src) == 0 {
			return arg0
		}
		// element copy (value semantics for aggregates)
		var et types.Type
		if sl, ok := fn.Type().(*types.Signature).Params().At(0).Type().Underlying().(*types.Slice); ok {
			et = sl.Elem()
		}
		if et == nil || isScalar(et) {
			return append(arg0, src...)
		}
		for _, e := range src {
			arg0 = append(arg0, copyVal(et, e))
		}
		return arg0

	case "copy":
		dst := args[0].([]value)
		switch s := args[1].(type) {
		case string:
			n := len(dst)
			if len(s) < n {
				n = len(s)
			}
			for i := 0; i < n; i++ {
				dst[i] = ts.BV(8, uint64(s[i]))
			}
			return m.mkInt(int64(n))
		case *SymString:
			n := len(dst)
			if len(s.b) < n {
				n = len(s.b)
			}
			for i := 0; i < n; i++ {
				dst[i] = s.b[i]
			}
			return m.mkInt(int64(n))
		}
		src := args[1].([]value)
		var et types.Type
		if sl, ok := fn.Type().(*types.Signature).Params().At(0).Type().Underlying().(*types.Slice); ok {
			et = sl.Elem()
		}
		if et == nil || isScalar(et) {
			return m.mkInt(int64(copy(dst, src)))
		}
		n := len(dst)
		if len(src) < n {
			n = len(src)
		}
		tmp := make([]value, n)
		for i := 0; i < n; i++ {
			tmp[i] = copyVal(et, src[i])
		}
		copy(dst, tmp)
		return m.mkInt(int64(n))

	case "close":
		m.chanClose(args[0].(*Chan))
		return nil

	case "delete":
		m.mapDelete(args[0].(*Map), args[1])
		return nil

	case "clear":
		switch x := args[0].(type) {
		case *Map:
			if x != nil {
				x.entries = nil
				x.idx = map[string]*mapEntry{}
				x.n, x.nsym = 0, 0
			}
		case []value:
			if len(x) > 0 {
				et := fn.Type().(*types.Signature).Params().At(0).Type().Underlying().(*types.Slice).Elem()
				for i := range x {
					x[i] = m.zero(et)
				}
			}
		}
		return nil

	case "print", "println":
		return nil

	case "len":
		switch x := args[0].(type) {
		case string:
			return m.mkInt(int64(len(x)))
		case *SymString:
			return m.mkInt(int64(len(x.b)))
		case array:
			return m.mkInt(int64(len(x)))
		case *value:
			return m.mkInt(int64(len((*x).(array))))
		case []value:
			return m.mkInt(int64(len(x)))
		case *Map:
			return m.mkInt(int64(x.length()))
		case *Chan:
			return m.mkInt(int64(x.length()))
		default:
			panic(fmt.Sprintf("len: illegal operand: %T", x))
		}

	case "cap":
		switch x := args[0].(type) {
		case array:
			return m.mkInt(int64(cap(x)))
		case *value:
			return m.mkInt(int64(cap((*x).(array))))
		case []value:
			return m.mkInt(int64(cap(x)))
		case *Chan:
			if x == nil {
				return m.mkInt(0)
			}
			return m.mkInt(int64(x.cap))
		default:
			panic(fmt.Sprintf("cap: illegal operand: %T", x))
		}

	case "min", "max":
		x := args[0]
		t := fn.Type().(*types.Signature).Params().At(0).Type()
		for _, y := range args[1:] {
			var c *Term
			if fn.Name() == "min" {
				c = m.binop(token.LSS, t, y, x).(*Term)
			} else {
				c = m.binop(token.GTR, t, y, x).(*Term)
			}
			if xt, ok := x.(*Term); ok {
				x = ts.Ite(c, y.(*Term), xt)
			} else if c.IsTrue() {
				x = y
			}
		}
		return x

	case "panic":
		panic(targetPanic{args[0]})

	case "recover":
		return m.doRecover(caller)

	case "ssa:wrapnilchk":
		recv := args[0]
		if p, ok := recv.(*value); ok && p == nil {
			m.panicRuntime(fmt.Sprintf("value method %s.%s called using nil pointer", toString(args[1]), toString(args[2])))
		}
		return recv

	case "ssa:deferstack":
		return &caller.defers

	// unsafe builtins, supported only in the shapes the standard library
	// uses for zero-copy string/slice conversion
	case "SliceData":
		s, _ := args[0].([]value)
		return &sliceData{s: s}
	case "StringData":
		return &sliceData{str: args[0]}
	case "String":
		n := int(m.concInt(args[1], "unsafe.String len"))
		switch p := args[0].(type) {
		case *sliceData:
			if p.str != nil {
				return m.sliceStr(p.str, n)
			}
			b := make([]*Term, n)
			for i := 0; i < n; i++ {
				b[i] = p.s[i].(*Term)
			}
			return normStr(&SymString{b})
		case *value:
			if p == nil && n == 0 {
				return ""
			}
		}
		m.unsupported("unsafe.String on an arbitrary pointer")
	case "Slice":
		n := int(m.concInt(args[1], "unsafe.Slice len"))
		switch p := args[0].(type) {
		case *sliceData:
			if p.str != nil {
				bs := m.byteSeq(p.str)
				out := make([]value, n)
				for i := 0; i < n; i++ {
					out[i] = bs[i]
				}
				return out
			}
			return p.s[:n:n]
		case *value:
			if p == nil && n == 0 {
				return []value(nil)
			}
		}
		m.unsupported("unsafe.Slice on an arbitrary pointer")
	}
	panic("unknown built-in: " + fn.Name())
}

func (m *Machine) rangeIter(x value) iter {
	switch x := x.(type) {
	case *Map:
		return m.newMapIter(x)
	case string:
		return &stringIter{Reader: strings.NewReader(x), m: m}
	case *SymString:
		v := normStr(x)
		if s, ok := v.(string); ok {
			return &stringIter{Reader: strings.NewReader(s), m: m}
		}
		m.unsupported("range over symbolic string")
	}
	panic(fmt.Sprintf("cannot range over %T", x))
}

var _ = utf8.RuneError
