package engine

import (
	"fmt"
	"go/types"
	"strings"

	"golang.org/x/tools/go/ssa"
)

type intrinsic func(fr *frame, args []value) value

var intrinsics = map[string]intrinsic{}

// prefixIntrinsics match by name prefix (generic instantiations etc).
type prefixEntry struct {
	prefix string
	f      intrinsic
}

var prefixIntrinsics []prefixEntry

func prefixIntrinsic(name string) intrinsic {
	for _, e := range prefixIntrinsics {
		if strings.HasPrefix(name, e.prefix) {
			return e.f
		}
	}
	return nil
}

func reg(name string, f intrinsic) { intrinsics[name] = f }

func (m *Machine) str(v value) string {
	switch s := v.(type) {
	case string:
		return s
	case *SymString:
		if c, ok := normStr(s).(string); ok {
			return c
		}
		return toString(s)
	}
	return toString(v)
}

func init() {
	nd := NdPkg + "."
	mkvar := func(w uint8) intrinsic {
		return func(fr *frame, args []value) value {
			return fr.m.freshVar(w, fr.m.str(args[0]))
		}
	}
	reg(nd+"U8", mkvar(8))
	reg(nd+"U16", mkvar(16))
	reg(nd+"U32", mkvar(32))
	reg(nd+"U64", mkvar(64))
	reg(nd+"I32", mkvar(32))
	reg(nd+"I64", mkvar(64))
	reg(nd+"Int", mkvar(64))
	reg(nd+"Bool", mkvar(0))
	reg(nd+"Bytes", func(fr *frame, args []value) value {
		m := fr.m
		n := int(m.concInt(args[0], "Bytes length"))
		tag := m.str(args[1])
		b := make([]value, n)
		for i := range b {
			b[i] = m.freshVar(8, fmt.Sprintf("%s[%d]", tag, i))
		}
		return b
	})
	reg(nd+"Choice", func(fr *frame, args []value) value {
		m := fr.m
		n := int(m.concInt(args[0], "Choice arity"))
		return m.mkInt(int64(m.choose(n, "choice:"+m.str(args[1]))))
	})
	reg(nd+"Assume", func(fr *frame, args []value) value {
		fr.m.assume(args[0].(*Term))
		return nil
	})
	reg(nd+"Assert", func(fr *frame, args []value) value {
		fr.m.assert(args[0].(*Term), fr.m.str(args[1]), fr.caller)
		return nil
	})
	reg(nd+"Cover", func(fr *frame, args []value) value {
		fr.m.covers[fr.m.str(args[0])] = true
		return nil
	})
	// CoverIf(cond, label): the label is covered when cond is satisfiable on
	// this path; one query, no fork, the path is not constrained
	reg(nd+"CoverIf", func(fr *frame, args []value) value {
		m := fr.m
		label := m.str(args[1])
		if m.covers[label] {
			return nil
		}
		c := args[0].(*Term)
		if c.IsConst() {
			if c.IsTrue() {
				m.covers[label] = true
			}
			return nil
		}
		if m.checkSat(c) == Sat {
			m.covers[label] = true
		}
		return nil
	})
	reg(nd+"Known", func(fr *frame, args []value) value {
		m := fr.m
		id := m.str(args[0])
		if !m.cfg.Known[id] {
			return nil
		}
		if m.branch(args[1].(*Term), "known:"+id) {
			m.inKnown = id
			m.knownHit[id] = true
		}
		return nil
	})
	reg(nd+"Event", func(fr *frame, args []value) value {
		fr.m.events = append(fr.m.events, fr.m.str(args[0]))
		return nil
	})
	reg(nd+"End", func(fr *frame, args []value) value {
		panic(engineAbort{abortEnd, "End"})
	})
	reg(nd+"Yield", func(fr *frame, args []value) value {
		// voluntary: any enabled thread (including this one) may run next;
		// not counted against the preemption bound
		m := fr.m
		en := m.enabled()
		if len(en) > 1 {
			m.switchTo(m.pick(en, "sched-yield"))
		}
		return nil
	})
	// strict (non-short-circuit) boolean connectives: build terms, no forks
	reg(nd+"Or", func(fr *frame, args []value) value { return fr.m.ts.BOr(args[0].(*Term), args[1].(*Term)) })
	reg(nd+"And", func(fr *frame, args []value) value { return fr.m.ts.BAnd(args[0].(*Term), args[1].(*Term)) })
	reg(nd+"Implies", func(fr *frame, args []value) value {
		return fr.m.ts.BOr(fr.m.ts.BNot(args[0].(*Term)), args[1].(*Term))
	})
	reg(nd+"IteU64", func(fr *frame, args []value) value {
		return fr.m.ts.Ite(args[0].(*Term), args[1].(*Term), args[2].(*Term))
	})
	reg(nd+"IteU8", func(fr *frame, args []value) value {
		return fr.m.ts.Ite(args[0].(*Term), args[1].(*Term), args[2].(*Term))
	})
	reg(nd+"IteInt", func(fr *frame, args []value) value {
		return fr.m.ts.Ite(args[0].(*Term), args[1].(*Term), args[2].(*Term))
	})
	reg(nd+"Iff", func(fr *frame, args []value) value { return fr.m.ts.Eq(args[0].(*Term), args[1].(*Term)) })
	// SameBytes: the two byte strings are the same terms (syntactic identity);
	// a concrete answer, used by ideal-function models to memoise.
	reg(nd+"SameBytes", func(fr *frame, args []value) value {
		a, b := fr.m.byteSeq(args[0]), fr.m.byteSeq(args[1])
		if len(a) != len(b) {
			return fr.m.ts.False
		}
		for i := range a {
			if a[i] != b[i] {
				return fr.m.ts.False
			}
		}
		return fr.m.ts.True
	})
	// EqBytes: equality of two byte strings as one formula (no fork).
	reg(nd+"EqBytes", func(fr *frame, args []value) value {
		return fr.m.seqEq(fr.m.byteSeq(args[0]), fr.m.byteSeq(args[1]))
	})
	// Axiom adds a constraint without a feasibility query; the engine checks
	// once per path (before reporting) that the path condition is satisfiable.
	reg(nd+"Axiom", func(fr *frame, args []value) value {
		m := fr.m
		c := args[0].(*Term)
		if c.IsTrue() {
			return nil
		}
		if m.cfg.ReplayVals != nil {
			return nil
		}
		m.pushPC(c)
		m.solver.Assert(c)
		m.axioms++
		if m.model != nil && m.ts.Eval(c, m.model) != 1 {
			m.model = nil
		}
		return nil
	})
	reg(nd+"Thorough",func(fr *frame, args []value) value { return fr.m.ts.Bool(fr.m.cfg.Thorough) })
	reg(nd+"RunOthers", func(fr *frame, args []value) value {
		// let every other thread run until all are blocked or done (their
		// relative order is still a scheduling decision)
		m := fr.m
		cur := m.cur
		m.block(func() bool {
			for _, t := range m.threads {
				if t != cur && !t.done && !t.daemo && (t.cond == nil || t.cond()) {
					return false
				}
			}
			return true
		}, "RunOthers")
		return nil
	})
	reg(nd+"PermuteRange", func(fr *frame, args []value) value {
		fr.m.permuteNext = true
		return nil
	})
	reg(nd+"Atomic", func(fr *frame, args []value) value {
		m := fr.m
		m.noPreempt++
		m.call(fr, nil, args[0], nil)
		m.noPreempt--
		return nil
	})
	reg(nd+"NoPreempt", func(fr *frame, args []value) value { fr.m.noPreempt++; return nil })
	reg(nd+"Preempt", func(fr *frame, args []value) value { fr.m.noPreempt--; return nil })
	reg(nd+"SetPreemptions", func(fr *frame, args []value) value {
		fr.m.preemptBound = int(fr.m.concInt(args[0], "preemptions"))
		return nil
	})
	reg(nd+"Symbolic", func(fr *frame, args []value) value { return fr.m.ts.True })
	reg(nd+"Blocked", func(fr *frame, args []value) value { return fr.m.ts.False })
	reg(nd+"Daemon", func(fr *frame, args []value) value {
		t := fr.m.spawn(fr, nil, args[0], nil)
		t.daemo = true
		return nil
	})
	reg(nd+"FreshID", func(fr *frame, args []value) value {
		fr.m.nIDs++
		return fr.m.mkInt(int64(fr.m.nIDs))
	})
	reg(nd+"Reset", func(fr *frame, args []value) value { return nil })

	// runtime
	reg("(runtime.errorString).Error", func(fr *frame, args []value) value { return args[0] })
	reg("(runtime.errorString).RuntimeError", func(fr *frame, args []value) value { return nil })
	reg("runtime.SetFinalizer", func(fr *frame, args []value) value { return nil })
	reg("runtime.KeepAlive", func(fr *frame, args []value) value { return nil })
	reg("runtime.Gosched", func(fr *frame, args []value) value { fr.m.yield("Gosched"); return nil })
	reg("runtime.GC", func(fr *frame, args []value) value { return nil })
	reg("runtime.GOMAXPROCS", func(fr *frame, args []value) value { return fr.m.mkInt(16) })
	reg("runtime.NumCPU", func(fr *frame, args []value) value { return fr.m.mkInt(16) })

	// errors
	reg("errors.Is", func(fr *frame, args []value) value {
		return fr.m.ts.Bool(fr.m.errorsIs(fr, args[0].(iface), args[1].(iface)))
	})
	reg("errors.As", func(fr *frame, args []value) value {
		return fr.m.ts.Bool(fr.m.errorsAs(fr, args[0].(iface), args[1].(iface)))
	})

	// fmt
	reg("fmt.Errorf", fmtErrorf)
	reg("fmt.Sprintf", func(fr *frame, args []value) value {
		return fr.m.sprintf(fr, fr.m.str(args[0]), args[1].([]value))
	})
	reg("fmt.Sprint", func(fr *frame, args []value) value {
		var sb strings.Builder
		for _, a := range args[0].([]value) {
			sb.WriteString(fr.m.fmtValue(fr, a, 'v'))
		}
		return sb.String()
	})
	reg("fmt.Sprintln", func(fr *frame, args []value) value {
		var sb strings.Builder
		for i, a := range args[0].([]value) {
			if i > 0 {
				sb.WriteByte(' ')
			}
			sb.WriteString(fr.m.fmtValue(fr, a, 'v'))
		}
		sb.WriteByte('\n')
		return sb.String()
	})
	for _, n := range []string{"fmt.Printf", "fmt.Println", "fmt.Print", "fmt.Fprintf", "fmt.Fprintln", "fmt.Fprint"} {
		name := n
		reg(name, func(fr *frame, args []value) value {
			return fr.m.zeroResult(fr.fn.Signature)
		})
	}
	reg("(*fmt.wrapError).Error", func(fr *frame, args []value) value {
		return (*args[0].(*value)).(structure)[0]
	})
	reg("(*fmt.wrapError).Unwrap", func(fr *frame, args []value) value {
		return (*args[0].(*value)).(structure)[1]
	})
	reg("(*fmt.wrapErrors).Error", func(fr *frame, args []value) value {
		return (*args[0].(*value)).(structure)[0]
	})
	reg("(*fmt.wrapErrors).Unwrap", func(fr *frame, args []value) value {
		return (*args[0].(*value)).(structure)[1]
	})
}

func (m *Machine) typeOf(pkg, name string) types.Type {
	sp := m.P.Prog.ImportedPackage(pkg)
	if sp == nil {
		m.unsupported("package " + pkg + " not imported")
	}
	t := sp.Type(name)
	if t == nil {
		m.unsupported("type " + pkg + "." + name + " not found")
	}
	return t.Type()
}

func (m *Machine) newError(msg string) iface {
	t := m.typeOf("errors", "errorString")
	var cell value = structure{msg}
	return iface{t: types.NewPointer(t), v: &cell}
}

func fmtErrorf(fr *frame, args []value) value {
	m := fr.m
	format := m.str(args[0])
	va, _ := args[1].([]value)
	msg := m.sprintf(fr, format, va)
	// find %w operands
	var wrapped []value
	ai := 0
	for i := 0; i < len(format); i++ {
		if format[i] != '%' {
			continue
		}
		i++
		for i < len(format) && strings.ContainsRune("+-# 0123456789.*[]", rune(format[i])) {
			i++
		}
		if i >= len(format) {
			break
		}
		if format[i] == '%' {
			continue
		}
		if format[i] == 'w' && ai < len(va) {
			if e, ok := va[ai].(iface); ok && e.t != nil {
				wrapped = append(wrapped, e)
			}
		}
		ai++
	}
	switch len(wrapped) {
	case 0:
		return m.newError(msg)
	case 1:
		t := m.typeOf("fmt", "wrapError")
		var cell value = structure{msg, wrapped[0]}
		return iface{t: types.NewPointer(t), v: &cell}
	}
	t := m.typeOf("fmt", "wrapErrors")
	var cell value = structure{msg, wrapped}
	return iface{t: types.NewPointer(t), v: &cell}
}

func (m *Machine) sprintf(fr *frame, format string, va []value) string {
	var sb strings.Builder
	ai := 0
	for i := 0; i < len(format); i++ {
		c := format[i]
		if c != '%' {
			sb.WriteByte(c)
			continue
		}
		i++
		for i < len(format) && strings.ContainsRune("+-# 0123456789.*[]", rune(format[i])) {
			i++
		}
		if i >= len(format) {
			break
		}
		verb := format[i]
		if verb == '%' {
			sb.WriteByte('%')
			continue
		}
		if ai < len(va) {
			sb.WriteString(m.fmtValue(fr, va[ai], verb))
			ai++
		} else {
			sb.WriteString("%!" + string(verb) + "(MISSING)")
		}
	}
	return sb.String()
}

// fmtValue renders a value best-effort; symbolic data prints as <sym>.
func (m *Machine) fmtValue(fr *frame, v value, verb byte) string {
	switch x := v.(type) {
	case iface:
		if x.t == nil {
			return "<nil>"
		}
		// error / Stringer
		if verb != 'T' && verb != 'p' && verb != 'd' && verb != 'x' {
			if _, ok := x.v.(*opaque); !ok {
				for _, name := range []string{"Error", "String"} {
					ms := m.P.Prog.MethodSets.MethodSet(x.t)
					for i := 0; i < ms.Len(); i++ {
						sel := ms.At(i)
						f := sel.Obj().(*types.Func)
						sig := f.Type().(*types.Signature)
						if f.Name() == name && sig.Params().Len() == 0 && sig.Results().Len() == 1 && types.Identical(sig.Results().At(0).Type(), types.Typ[types.String]) {
							if name == "String" && verb == 'v' && isNilPtr(x.v) {
								return "<nil>"
							}
							fn := m.P.Prog.MethodValue(sel)
							if fn == nil {
								continue
							}
							var res value
							func() {
								defer func() {
									if r := recover(); r != nil {
										if ea, ok := r.(engineAbort); ok && ea.kind != abortUnsupported {
											panic(r)
										}
										res = "<fmt:" + name + " failed>"
									}
								}()
								res = m.call(fr, nil, fn, []value{x.v})
							}()
							return m.str(res)
						}
					}
				}
			}
		}
		if verb == 'T' {
			return x.t.String()
		}
		return m.fmtValue(fr, x.v, verb)
	case *Term:
		if !x.IsConst() {
			return "<sym>"
		}
		if x.w == 0 {
			return fmt.Sprint(x.val == 1)
		}
		if verb == 'x' || verb == 'X' {
			return fmt.Sprintf("%x", x.val)
		}
		return fmt.Sprint(x.val)
	case string:
		if verb == 'q' {
			return fmt.Sprintf("%q", x)
		}
		if verb == 'x' || verb == 'X' {
			return fmt.Sprintf("%x", x)
		}
		return x
	}
	return toString(v)
}

func isNilPtr(v value) bool {
	p, ok := v.(*value)
	return ok && p == nil
}

// callMethod calls method name on an interface value if present.
func (m *Machine) findMethod(t types.Type, name string) *ssa.Function {
	ms := m.P.Prog.MethodSets.MethodSet(t)
	for i := 0; i < ms.Len(); i++ {
		sel := ms.At(i)
		if sel.Obj().Name() == name {
			return m.P.Prog.MethodValue(sel)
		}
	}
	return nil
}

func (m *Machine) errorsIs(fr *frame, err, target iface) bool {
	if err.t == nil || target.t == nil {
		return err.t == nil && target.t == nil
	}
	comparable := types.Comparable(target.t)
	return m.errorsIsRec(fr, err, target, comparable, 0)
}

func (m *Machine) errorsIsRec(fr *frame, err, target iface, comparable bool, depth int) bool {
	if depth > 50 {
		m.unsupported("errors.Is chain too deep")
	}
	for {
		if err.t == nil {
			return false
		}
		if comparable && sameType(err.t, target.t) {
			eq := m.equals(err.t, err.v, target.v)
			if m.branch(eq, "errors.Is") {
				return true
			}
		}
		if f := m.findMethod(err.t, "Is"); f != nil && f.Signature.Params().Len() == 1 && f.Signature.Results().Len() == 1 {
			if _, ok := err.v.(*opaque); !ok {
				r := m.call(fr, nil, f, []value{err.v, target})
				if rt, ok := r.(*Term); ok && m.branch(rt, "errors.Is.method") {
					return true
				}
			}
		}
		f := m.findMethod(err.t, "Unwrap")
		if f == nil || f.Signature.Params().Len() != 0 || f.Signature.Results().Len() != 1 {
			return false
		}
		if _, ok := err.v.(*opaque); ok {
			return false
		}
		r := m.call(fr, nil, f, []value{err.v})
		switch r := r.(type) {
		case iface:
			if r.t == nil {
				return false
			}
			err = r
		case []value:
			for _, e := range r {
				if ei, ok := e.(iface); ok && ei.t != nil {
					if m.errorsIsRec(fr, ei, target, comparable, depth+1) {
						return true
					}
				}
			}
			return false
		default:
			return false
		}
	}
}

func (m *Machine) errorsAs(fr *frame, err, target iface) bool {
	if target.t == nil {
		m.panicRuntimePlain("errors: target cannot be nil")
	}
	pt, ok := target.t.Underlying().(*types.Pointer)
	if !ok {
		m.panicRuntimePlain("errors: target must be a non-nil pointer")
	}
	tt := pt.Elem()
	tp := target.v.(*value)
	return m.errorsAsRec(fr, err, tt, tp, 0)
}

func (m *Machine) errorsAsRec(fr *frame, err iface, tt types.Type, tp *value, depth int) bool {
	if depth > 50 {
		m.unsupported("errors.As chain too deep")
	}
	for {
		if err.t == nil {
			return false
		}
		if it, ok := tt.Underlying().(*types.Interface); ok {
			if types.Implements(err.t, it) {
				*tp = err
				return true
			}
		} else if types.Identical(err.t, tt) {
			*tp = err.v
			return true
		}
		f := m.findMethod(err.t, "Unwrap")
		if f == nil || f.Signature.Params().Len() != 0 || f.Signature.Results().Len() != 1 {
			return false
		}
		if _, ok := err.v.(*opaque); ok {
			return false
		}
		r := m.call(fr, nil, f, []value{err.v})
		switch r := r.(type) {
		case iface:
			err = r
		case []value:
			for _, e := range r {
				if ei, ok := e.(iface); ok && ei.t != nil {
					if m.errorsAsRec(fr, ei, tt, tp, depth+1) {
						return true
					}
				}
			}
			return false
		default:
			return false
		}
	}
}
