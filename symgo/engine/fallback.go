package engine

import (
	"bytes"
	"fmt"
	"os"
	"os/exec"
	"strings"
	"time"
)

// Fallback solving: when the incremental bit-blasting solver answers
// unknown/timeout (typically symbolic multiplication/division), the whole
// path condition plus the query is sent one-shot (a) to z3 non-incremental,
// whose default bit-vector tactic preprocesses far better than the
// incremental core, and (b) to cvc5 with the integer encoding of bit-vectors
// (--solve-bv-as-int=sum), which keeps mod-2^k semantics.

type FallbackStats struct {
	Sat, Unsat, Unknown int
	Seconds             float64
}

func (m *Machine) script(extra []*Term, vars []*Term, logic string) string {
	var sb strings.Builder
	if logic != "" {
		sb.WriteString("(set-logic " + logic + ")\n")
	}
	sb.WriteString("(set-option :produce-models true)\n")
	defined := map[int32]bool{}
	r := &recMap{m: defined, top: map[int32]bool{}}
	for _, c := range m.pc {
		emitTermRec(&sb, c, r)
		sb.WriteString("(assert " + c.ref() + ")\n")
	}
	for _, c := range extra {
		emitTermRec(&sb, c, r)
		sb.WriteString("(assert " + c.ref() + ")\n")
	}
	sb.WriteString("(check-sat)\n")
	if len(vars) > 0 {
		n := 0
		var gv strings.Builder
		for _, v := range vars {
			if defined[v.id] {
				gv.WriteString(v.ref() + " ")
				n++
			}
		}
		if n > 0 {
			sb.WriteString("(get-value (" + gv.String() + "))\n")
		}
	}
	return sb.String()
}

func runOneShot(argv []string, scr string) (Verdict, map[string]uint64, string) {
	cmd := exec.Command(argv[0], argv[1:]...)
	cmd.Stdin = strings.NewReader(scr)
	var out bytes.Buffer
	cmd.Stdout = &out
	cmd.Stderr = &out
	cmd.Run()
	s := out.String()
	lines := strings.SplitN(strings.TrimSpace(s), "\n", 2)
	switch strings.TrimSpace(lines[0]) {
	case "unsat":
		return Unsat, nil, s
	case "sat":
		if len(lines) > 1 && strings.Contains(lines[1], "(error") {
			return Unknown, nil, s
		}
		model := map[string]uint64{}
		if len(lines) > 1 {
			parseModel(strings.ReplaceAll(lines[1], "\n", " "), model)
		}
		return Sat, model, s
	}
	return Unknown, nil, s
}

func (m *Machine) fallback(extra []*Term, wantModel bool) (Verdict, map[string]uint64) {
	t0 := time.Now()
	defer func() { m.fb.Seconds += time.Since(t0).Seconds() }()
	var vars []*Term
	if wantModel {
		for _, v := range m.ndVars {
			vars = append(vars, v.T)
		}
	}
	tl := m.cfg.FallbackMs
	if tl == 0 {
		tl = 90000
	}
	stages := []struct {
		argv  []string
		logic string
	}{
		// a fresh z3 5.1.0 without the incremental context and with a long
		// limit decides most queries the 3 s incremental call gave up on
		// (a loaded machine is the usual reason)
		{[]string{"z3-new", "-in", fmt.Sprintf("-T:%d", tl/1500+1)}, ""},
		{[]string{"z3", "-in", fmt.Sprintf("-T:%d", tl/3000+1)}, ""},
		{[]string{"cvc5", "--lang=smt2", "--solve-bv-as-int=sum", fmt.Sprintf("--tlimit=%d", tl)}, "ALL"},
	}
	var last, lastScr string
	for _, st := range stages {
		scr := m.script(extra, vars, st.logic)
		v, model, out := runOneShot(st.argv, scr)
		last, lastScr = out, scr
		switch v {
		case Unsat:
			m.fb.Unsat++
			return Unsat, nil
		case Sat:
			m.fb.Sat++
			return Sat, model
		}
	}
	m.fb.Unknown++
	if d := os.Getenv("SYMGO_DUMP"); d != "" {
		os.WriteFile(fmt.Sprintf("%s/unknown-%d.smt2", d, time.Now().UnixNano()), []byte(lastScr+"\n; "+last), 0o644)
	}
	return Unknown, nil
}

// checkSat decides pc ∧ extra, falling back to the one-shot portfolio on
// unknown.
func (m *Machine) checkSat(extra *Term) Verdict {
	key, cv, hit := m.cacheLookup(extra)
	if hit {
		return cv
	}
	v := m.solver.Check(extra)
	if v == Sat {
		m.solver.ModelDone()
	}
	if v == Unknown {
		v, _ = m.fallback([]*Term{extra}, false)
	}
	m.cacheStore(key, v)
	return v
}

// checkRefresh decides pc ∧ extra; on sat with refresh it stores a model of
// pc ∧ extra in m.model (the caller is about to add extra to the path
// condition).
func (m *Machine) checkRefresh(extra *Term, refresh bool) Verdict {
	if !refresh {
		return m.checkSat(extra)
	}
	key, cv, hit := m.cacheLookup(extra)
	if hit {
		if cv == Sat {
			m.model = nil // feasible, but no model at hand
		}
		return cv
	}
	v, model := m.checkSatModel(extra)
	if v == Sat {
		m.model = model
	}
	m.cacheStore(key, v)
	return v
}

func (m *Machine) checkSatModel(extra *Term) (Verdict, map[string]uint64) {
	v := m.solver.Check(extra)
	if v == Sat {
		vars := make([]*Term, 0, len(m.ndVars))
		for _, nv := range m.ndVars {
			vars = append(vars, nv.T)
		}
		model := m.solver.Model(vars)
		m.solver.ModelDone()
		return Sat, model
	}
	if v == Unknown {
		return m.fallback([]*Term{extra}, true)
	}
	return v, nil
}
