package engine

// Hash-consed SMT terms over (_ BitVec w), 1<=w<=64, and Bool (w==0).
// Every Go integer and boolean in the interpreter is a *Term; concrete values
// are constant terms and all constructors fold constants, so concrete code
// runs concretely and only data that depends on a verifnd variable reaches
// the solver.

import (
	"fmt"
)

type Op uint8

const (
	OpConst Op = iota
	OpVar
	OpAdd
	OpSub
	OpMul
	OpUDiv
	OpSDiv
	OpURem
	OpSRem
	OpAnd
	OpOr
	OpXor
	OpNot
	OpNeg
	OpShl
	OpLShr
	OpAShr
	OpConcat
	OpExtract // val = hi<<8|lo
	OpZExt
	OpSExt
	OpIte
	OpEq
	OpUlt
	OpUle
	OpSlt
	OpSle
	OpBAnd
	OpBOr
	OpBNot
)

var opNames = [...]string{"const", "var", "bvadd", "bvsub", "bvmul", "bvudiv", "bvsdiv", "bvurem", "bvsrem",
	"bvand", "bvor", "bvxor", "bvnot", "bvneg", "bvshl", "bvlshr", "bvashr", "concat", "extract", "zext", "sext",
	"ite", "=", "bvult", "bvule", "bvslt", "bvsle", "and", "or", "not"}

type Term struct {
	op      Op
	w       uint8 // 0 = Bool
	val     uint64
	a, b, c *Term
	id      int32
	name    string
}

type termKey struct {
	op      Op
	w       uint8
	val     uint64
	a, b, c int32
	name    string
}

// TermStore owns the hash-consing table; one per machine (not shared
// between workers).
type TermStore struct {
	tab    map[termKey]*Term
	nextID int32
	vars   []*Term
	True   *Term
	False  *Term
	small  [65][]*Term
}

func NewTermStore() *TermStore {
	ts := &TermStore{tab: make(map[termKey]*Term, 1<<12), nextID: 1}
	ts.True = ts.mk(OpConst, 0, 1, nil, nil, nil, "")
	ts.False = ts.mk(OpConst, 0, 0, nil, nil, nil, "")
	return ts
}

func tid(t *Term) int32 {
	if t == nil {
		return 0
	}
	return t.id
}

func (ts *TermStore) mk(op Op, w uint8, val uint64, a, b, c *Term, name string) *Term {
	k := termKey{op, w, val, tid(a), tid(b), tid(c), name}
	if t, ok := ts.tab[k]; ok {
		return t
	}
	t := &Term{op: op, w: w, val: val, a: a, b: b, c: c, id: ts.nextID, name: name}
	ts.nextID++
	ts.tab[k] = t
	return t
}

func mask(w uint8) uint64 {
	if w >= 64 {
		return ^uint64(0)
	}
	return (uint64(1) << w) - 1
}

func sext(v uint64, w uint8) int64 {
	if w >= 64 {
		return int64(v)
	}
	sh := 64 - uint(w)
	return int64(v<<sh) >> sh
}

func (t *Term) IsConst() bool { return t.op == OpConst }
func (t *Term) IsBool() bool  { return t.w == 0 }
func (t *Term) Width() int    { return int(t.w) }

// Uint returns the constant's value zero-extended.
func (t *Term) Uint() uint64 { return t.val }

// Int returns the constant's value sign-extended from its width.
func (t *Term) Int() int64 { return sext(t.val, t.w) }

func (t *Term) IsTrue() bool  { return t.op == OpConst && t.w == 0 && t.val == 1 }
func (t *Term) IsFalse() bool { return t.op == OpConst && t.w == 0 && t.val == 0 }

func (ts *TermStore) BV(w uint8, v uint64) *Term {
	v &= mask(w)
	if v < 300 {
		s := ts.small[w]
		if s == nil {
			s = make([]*Term, 300)
			ts.small[w] = s
		}
		if s[v] == nil {
			s[v] = ts.mk(OpConst, w, v, nil, nil, nil, "")
		}
		return s[v]
	}
	return ts.mk(OpConst, w, v, nil, nil, nil, "")
}

func (ts *TermStore) Bool(b bool) *Term {
	if b {
		return ts.True
	}
	return ts.False
}

// Var creates a fresh variable; name must be unique per store.
func (ts *TermStore) Var(w uint8, name string) *Term {
	t := ts.mk(OpVar, w, 0, nil, nil, nil, name)
	if int(t.id) == int(ts.nextID)-1 {
		ts.vars = append(ts.vars, t)
	}
	return t
}

func (ts *TermStore) bin(op Op, a, b *Term) *Term {
	if a.w != b.w {
		panic(fmt.Sprintf("term width mismatch %s: %d vs %d", opNames[op], a.w, b.w))
	}
	w := a.w
	m := mask(w)
	if a.op == OpConst && b.op == OpConst {
		x, y := a.val, b.val
		switch op {
		case OpAdd:
			return ts.BV(w, x+y)
		case OpSub:
			return ts.BV(w, x-y)
		case OpMul:
			return ts.BV(w, x*y)
		case OpUDiv:
			if y == 0 {
				return ts.BV(w, m)
			}
			return ts.BV(w, x/y)
		case OpURem:
			if y == 0 {
				return ts.BV(w, x)
			}
			return ts.BV(w, x%y)
		case OpSDiv:
			sx, sy := sext(x, w), sext(y, w)
			if sy == 0 {
				if sx < 0 {
					return ts.BV(w, 1)
				}
				return ts.BV(w, m)
			}
			if sy == -1 {
				return ts.BV(w, uint64(-sx))
			}
			return ts.BV(w, uint64(sx/sy))
		case OpSRem:
			sx, sy := sext(x, w), sext(y, w)
			if sy == 0 {
				return ts.BV(w, x)
			}
			if sy == -1 {
				return ts.BV(w, 0)
			}
			return ts.BV(w, uint64(sx%sy))
		case OpAnd:
			return ts.BV(w, x&y)
		case OpOr:
			return ts.BV(w, x|y)
		case OpXor:
			return ts.BV(w, x^y)
		case OpShl:
			if y >= uint64(w) {
				return ts.BV(w, 0)
			}
			return ts.BV(w, x<<y)
		case OpLShr:
			if y >= uint64(w) {
				return ts.BV(w, 0)
			}
			return ts.BV(w, x>>y)
		case OpAShr:
			sx := sext(x, w)
			if y >= uint64(w) {
				y = uint64(w) - 1
			}
			return ts.BV(w, uint64(sx>>y))
		}
	}
	// identities
	switch op {
	case OpAdd:
		if a.op == OpConst && a.val == 0 {
			return b
		}
		if b.op == OpConst && b.val == 0 {
			return a
		}
		if a.op == OpConst { // canonical: const on the right
			a, b = b, a
		}
		// (x + c1) + c2
		if b.op == OpConst && a.op == OpAdd && a.b.op == OpConst {
			return ts.bin(OpAdd, a.a, ts.BV(w, a.b.val+b.val))
		}
	case OpSub:
		if b.op == OpConst && b.val == 0 {
			return a
		}
		if a == b {
			return ts.BV(w, 0)
		}
		if b.op == OpConst {
			return ts.bin(OpAdd, a, ts.BV(w, -b.val))
		}
	case OpMul:
		if a.op == OpConst {
			a, b = b, a
		}
		if b.op == OpConst {
			if b.val == 0 {
				return b
			}
			if b.val == 1 {
				return a
			}
		}
	case OpUDiv, OpSDiv:
		if b.op == OpConst && b.val == 1 {
			return a
		}
	case OpAnd:
		if a.op == OpConst {
			a, b = b, a
		}
		if b.op == OpConst {
			if b.val == 0 {
				return b
			}
			if b.val == m {
				return a
			}
		}
		if a == b {
			return a
		}
	case OpOr:
		if a.op == OpConst {
			a, b = b, a
		}
		if b.op == OpConst {
			if b.val == 0 {
				return a
			}
			if b.val == m {
				return b
			}
		}
		if a == b {
			return a
		}
	case OpXor:
		if a.op == OpConst {
			a, b = b, a
		}
		if b.op == OpConst && b.val == 0 {
			return a
		}
		if a == b {
			return ts.BV(w, 0)
		}
	case OpShl, OpLShr, OpAShr:
		if b.op == OpConst && b.val == 0 {
			return a
		}
		if a.op == OpConst && a.val == 0 {
			return a
		}
		if b.op == OpConst && b.val >= uint64(w) && op != OpAShr {
			return ts.BV(w, 0)
		}
		// (zext x) << c  or >> c patterns are left to the solver
	}
	return ts.mk(op, w, 0, a, b, nil, "")
}

func (ts *TermStore) Add(a, b *Term) *Term  { return ts.bin(OpAdd, a, b) }
func (ts *TermStore) Sub(a, b *Term) *Term  { return ts.bin(OpSub, a, b) }
func (ts *TermStore) Mul(a, b *Term) *Term  { return ts.bin(OpMul, a, b) }
func (ts *TermStore) UDiv(a, b *Term) *Term { return ts.bin(OpUDiv, a, b) }
func (ts *TermStore) SDiv(a, b *Term) *Term { return ts.bin(OpSDiv, a, b) }
func (ts *TermStore) URem(a, b *Term) *Term { return ts.bin(OpURem, a, b) }
func (ts *TermStore) SRem(a, b *Term) *Term { return ts.bin(OpSRem, a, b) }
func (ts *TermStore) And(a, b *Term) *Term  { return ts.bin(OpAnd, a, b) }
func (ts *TermStore) Or(a, b *Term) *Term   { return ts.bin(OpOr, a, b) }
func (ts *TermStore) Xor(a, b *Term) *Term  { return ts.bin(OpXor, a, b) }
func (ts *TermStore) Shl(a, b *Term) *Term  { return ts.bin(OpShl, a, b) }
func (ts *TermStore) LShr(a, b *Term) *Term { return ts.bin(OpLShr, a, b) }
func (ts *TermStore) AShr(a, b *Term) *Term { return ts.bin(OpAShr, a, b) }

func (ts *TermStore) BvNot(a *Term) *Term {
	if a.op == OpConst {
		return ts.BV(a.w, ^a.val)
	}
	if a.op == OpNot {
		return a.a
	}
	return ts.mk(OpNot, a.w, 0, a, nil, nil, "")
}

func (ts *TermStore) Neg(a *Term) *Term {
	if a.op == OpConst {
		return ts.BV(a.w, -a.val)
	}
	return ts.mk(OpNeg, a.w, 0, a, nil, nil, "")
}

func (ts *TermStore) Extract(a *Term, hi, lo uint8) *Term {
	if hi < lo || hi >= a.w {
		panic(fmt.Sprintf("bad extract [%d:%d] of bv%d", hi, lo, a.w))
	}
	w := hi - lo + 1
	if w == a.w {
		return a
	}
	switch a.op {
	case OpConst:
		return ts.BV(w, a.val>>lo)
	case OpZExt:
		if hi < a.a.w {
			return ts.Extract(a.a, hi, lo)
		}
		if lo >= a.a.w {
			return ts.BV(w, 0)
		}
		if lo == 0 {
			return ts.ZExt(a.a, w)
		}
	case OpSExt:
		if hi < a.a.w {
			return ts.Extract(a.a, hi, lo)
		}
	case OpConcat:
		bw := a.b.w
		if hi < bw {
			return ts.Extract(a.b, hi, lo)
		}
		if lo >= bw {
			return ts.Extract(a.a, hi-bw, lo-bw)
		}
	case OpExtract:
		alo := uint8(a.val & 0xff)
		return ts.Extract(a.a, hi+alo, lo+alo)
	case OpOr, OpAnd, OpXor:
		// distribute over bitwise ops when it removes structure (byte
		// (de)serialisation: byte(x>>k) of an or-of-shifted-bytes).
		if w <= 8 || (a.a.op == OpConst || a.b.op == OpConst) {
			x := ts.Extract(a.a, hi, lo)
			y := ts.Extract(a.b, hi, lo)
			return ts.bin(a.op, x, y)
		}
	case OpShl:
		if a.b.op == OpConst {
			k := a.b.val
			if uint64(lo) >= k {
				return ts.Extract(a.a, hi-uint8(k), lo-uint8(k))
			}
			if uint64(hi) < k {
				return ts.BV(w, 0)
			}
		}
	case OpLShr:
		if a.b.op == OpConst {
			k := a.b.val
			if uint64(hi)+k < uint64(a.w) {
				return ts.Extract(a.a, hi+uint8(k), lo+uint8(k))
			}
			if uint64(lo)+k >= uint64(a.w) {
				return ts.BV(w, 0)
			}
		}
	case OpIte:
		if a.b.op == OpConst && a.c.op == OpConst {
			return ts.Ite(a.a, ts.Extract(a.b, hi, lo), ts.Extract(a.c, hi, lo))
		}
	}
	return ts.mk(OpExtract, w, uint64(hi)<<8|uint64(lo), a, nil, nil, "")
}

func (ts *TermStore) ZExt(a *Term, w uint8) *Term {
	if w == a.w {
		return a
	}
	if w < a.w {
		return ts.Extract(a, w-1, 0)
	}
	if a.op == OpConst {
		return ts.BV(w, a.val)
	}
	if a.op == OpZExt {
		return ts.ZExt(a.a, w)
	}
	return ts.mk(OpZExt, w, 0, a, nil, nil, "")
}

func (ts *TermStore) SExt(a *Term, w uint8) *Term {
	if w == a.w {
		return a
	}
	if w < a.w {
		return ts.Extract(a, w-1, 0)
	}
	if a.op == OpConst {
		return ts.BV(w, uint64(sext(a.val, a.w)))
	}
	if a.op == OpZExt { // zext then sext: top bit is 0
		return ts.ZExt(a.a, w)
	}
	return ts.mk(OpSExt, w, 0, a, nil, nil, "")
}

func (ts *TermStore) Concat(hi, lo *Term) *Term {
	w := hi.w + lo.w
	if w > 64 {
		panic("concat wider than 64")
	}
	if hi.op == OpConst && lo.op == OpConst {
		return ts.BV(w, hi.val<<lo.w|lo.val)
	}
	return ts.mk(OpConcat, w, 0, hi, lo, nil, "")
}

func (ts *TermStore) Ite(c, a, b *Term) *Term {
	if c.IsTrue() {
		return a
	}
	if c.IsFalse() {
		return b
	}
	if a == b {
		return a
	}
	if a.w != b.w {
		panic("ite width mismatch")
	}
	if a.w == 0 {
		if a.IsTrue() && b.IsFalse() {
			return c
		}
		if a.IsFalse() && b.IsTrue() {
			return ts.BNot(c)
		}
		if a.IsTrue() {
			return ts.BOr(c, b)
		}
		if a.IsFalse() {
			return ts.BAnd(ts.BNot(c), b)
		}
		if b.IsTrue() {
			return ts.BOr(ts.BNot(c), a)
		}
		if b.IsFalse() {
			return ts.BAnd(c, a)
		}
	}
	return ts.mk(OpIte, a.w, 0, c, a, b, "")
}

func (ts *TermStore) Eq(a, b *Term) *Term {
	if a == b {
		return ts.True
	}
	if a.w != b.w {
		panic(fmt.Sprintf("eq width mismatch %d vs %d", a.w, b.w))
	}
	if a.op == OpConst && b.op == OpConst {
		return ts.Bool(a.val == b.val)
	}
	if a.w == 0 {
		if a.IsTrue() {
			return b
		}
		if b.IsTrue() {
			return a
		}
		if a.IsFalse() {
			return ts.BNot(b)
		}
		if b.IsFalse() {
			return ts.BNot(a)
		}
	}
	if a.op == OpConst {
		a, b = b, a
	}
	if b.op == OpConst {
		switch a.op {
		case OpIte:
			// eq(ite(c,k1,k2),k): fold when branches are constants
			if a.b.op == OpConst && a.c.op == OpConst {
				return ts.Ite(a.a, ts.Bool(a.b.val == b.val), ts.Bool(a.c.val == b.val))
			}
		case OpZExt:
			if b.val > mask(a.a.w) {
				return ts.False
			}
			return ts.Eq(a.a, ts.BV(a.a.w, b.val))
		case OpAdd:
			if a.b.op == OpConst {
				return ts.Eq(a.a, ts.BV(a.w, b.val-a.b.val))
			}
		}
	}
	// x+c1 == x+c2, x == x+c
	if a.op == OpAdd && a.b.op == OpConst {
		if b.op == OpAdd && b.b.op == OpConst && a.a == b.a {
			return ts.Bool(a.b.val == b.b.val)
		}
		if a.a == b {
			return ts.Bool(a.b.val == 0)
		}
	}
	if b.op == OpAdd && b.b.op == OpConst && b.a == a {
		return ts.Bool(b.b.val == 0)
	}
	if a.id > b.id && b.op != OpConst {
		a, b = b, a
	}
	return ts.mk(OpEq, 0, 0, a, b, nil, "")
}

func (ts *TermStore) cmp(op Op, a, b *Term) *Term {
	if a.w != b.w {
		panic(fmt.Sprintf("cmp width mismatch %d vs %d", a.w, b.w))
	}
	if a.op == OpConst && b.op == OpConst {
		switch op {
		case OpUlt:
			return ts.Bool(a.val < b.val)
		case OpUle:
			return ts.Bool(a.val <= b.val)
		case OpSlt:
			return ts.Bool(sext(a.val, a.w) < sext(b.val, b.w))
		case OpSle:
			return ts.Bool(sext(a.val, a.w) <= sext(b.val, b.w))
		}
	}
	if a == b {
		return ts.Bool(op == OpUle || op == OpSle)
	}
	switch op {
	case OpUlt:
		if b.op == OpConst && b.val == 0 {
			return ts.False
		}
	case OpUle:
		if a.op == OpConst && a.val == 0 {
			return ts.True
		}
		if b.op == OpConst && b.val == mask(b.w) {
			return ts.True
		}
	}
	// zext'd operands compared against constants: narrow
	if a.op == OpZExt && b.op == OpConst && (op == OpUlt || op == OpUle) {
		if b.val > mask(a.a.w) {
			return ts.True
		}
		return ts.cmp(op, a.a, ts.BV(a.a.w, b.val))
	}
	if a.op == OpZExt && b.op == OpConst && (op == OpSlt || op == OpSle) && a.w > a.a.w {
		sb := sext(b.val, b.w)
		if sb < 0 {
			return ts.False
		}
		if uint64(sb) > mask(a.a.w) {
			return ts.True
		}
		uop := OpUlt
		if op == OpSle {
			uop = OpUle
		}
		return ts.cmp(uop, a.a, ts.BV(a.a.w, uint64(sb)))
	}
	if b.op == OpZExt && a.op == OpConst && (op == OpSlt || op == OpSle) && b.w > b.a.w {
		sa := sext(a.val, a.w)
		if sa < 0 {
			return ts.True
		}
		if uint64(sa) > mask(b.a.w) {
			return ts.False
		}
		uop := OpUlt
		if op == OpSle {
			uop = OpUle
		}
		return ts.cmp(uop, ts.BV(b.a.w, uint64(sa)), b.a)
	}
	return ts.mk(op, 0, 0, a, b, nil, "")
}

func (ts *TermStore) Ult(a, b *Term) *Term { return ts.cmp(OpUlt, a, b) }
func (ts *TermStore) Ule(a, b *Term) *Term { return ts.cmp(OpUle, a, b) }
func (ts *TermStore) Slt(a, b *Term) *Term { return ts.cmp(OpSlt, a, b) }
func (ts *TermStore) Sle(a, b *Term) *Term { return ts.cmp(OpSle, a, b) }

func (ts *TermStore) BNot(a *Term) *Term {
	if a.w != 0 {
		panic("BNot on bitvector")
	}
	if a.op == OpConst {
		return ts.Bool(a.val == 0)
	}
	if a.op == OpBNot {
		return a.a
	}
	return ts.mk(OpBNot, 0, 0, a, nil, nil, "")
}

func (ts *TermStore) BAnd(a, b *Term) *Term {
	if a.IsFalse() || b.IsFalse() {
		return ts.False
	}
	if a.IsTrue() {
		return b
	}
	if b.IsTrue() {
		return a
	}
	if a == b {
		return a
	}
	if (a.op == OpBNot && a.a == b) || (b.op == OpBNot && b.a == a) {
		return ts.False
	}
	return ts.mk(OpBAnd, 0, 0, a, b, nil, "")
}

func (ts *TermStore) BOr(a, b *Term) *Term {
	if a.IsTrue() || b.IsTrue() {
		return ts.True
	}
	if a.IsFalse() {
		return b
	}
	if b.IsFalse() {
		return a
	}
	if a == b {
		return a
	}
	if (a.op == OpBNot && a.a == b) || (b.op == OpBNot && b.a == a) {
		return ts.True
	}
	return ts.mk(OpBOr, 0, 0, a, b, nil, "")
}

// ---------------------------------------------------------------------------
// SMT-LIB printing. Each non-leaf node is emitted once per solver scope as a
// define-fun so that shared sub-DAGs are not duplicated.

func sortOf(w uint8) string {
	if w == 0 {
		return "Bool"
	}
	return fmt.Sprintf("(_ BitVec %d)", w)
}

func (t *Term) ref() string {
	switch t.op {
	case OpConst:
		if t.w == 0 {
			if t.val == 1 {
				return "true"
			}
			return "false"
		}
		if t.w%4 == 0 {
			return fmt.Sprintf("#x%0*x", int(t.w/4), t.val)
		}
		return fmt.Sprintf("#b%0*b", int(t.w), t.val)
	case OpVar:
		return "|" + t.name + "|"
	}
	return fmt.Sprintf("t%d", t.id)
}

func (t *Term) body() string {
	switch t.op {
	case OpExtract:
		return fmt.Sprintf("((_ extract %d %d) %s)", t.val>>8, t.val&0xff, t.a.ref())
	case OpZExt:
		return fmt.Sprintf("((_ zero_extend %d) %s)", t.w-t.a.w, t.a.ref())
	case OpSExt:
		return fmt.Sprintf("((_ sign_extend %d) %s)", t.w-t.a.w, t.a.ref())
	case OpIte:
		return fmt.Sprintf("(ite %s %s %s)", t.a.ref(), t.b.ref(), t.c.ref())
	case OpNot, OpNeg, OpBNot:
		return fmt.Sprintf("(%s %s)", opNames[t.op], t.a.ref())
	}
	return fmt.Sprintf("(%s %s %s)", opNames[t.op], t.a.ref(), t.b.ref())
}

// Eval evaluates t under a model (var name -> value); missing vars are 0.
func (ts *TermStore) Eval(t *Term, model map[string]uint64) uint64 {
	memo := map[int32]uint64{}
	var ev func(t *Term) uint64
	ev = func(t *Term) uint64 {
		if t.op == OpConst {
			return t.val
		}
		if v, ok := memo[t.id]; ok {
			return v
		}
		var r uint64
		switch t.op {
		case OpVar:
			r = model[t.name] & mask(t.w)
			if t.w == 0 {
				r = model[t.name] & 1
			}
		case OpNot:
			r = ^ev(t.a) & mask(t.w)
		case OpNeg:
			r = (-ev(t.a)) & mask(t.w)
		case OpBNot:
			r = 1 - ev(t.a)
		case OpBAnd:
			r = ev(t.a) & ev(t.b)
		case OpBOr:
			r = ev(t.a) | ev(t.b)
		case OpIte:
			if ev(t.a) == 1 {
				r = ev(t.b)
			} else {
				r = ev(t.c)
			}
		case OpExtract:
			hi, lo := uint8(t.val>>8), uint8(t.val&0xff)
			r = (ev(t.a) >> lo) & mask(hi-lo+1)
		case OpZExt:
			r = ev(t.a)
		case OpSExt:
			r = uint64(sext(ev(t.a), t.a.w)) & mask(t.w)
		case OpConcat:
			r = ev(t.a)<<t.b.w | ev(t.b)
		case OpEq:
			if ev(t.a) == ev(t.b) {
				r = 1
			}
		case OpUlt, OpUle, OpSlt, OpSle:
			c := ts.cmp(t.op, ts.BV(t.a.w, ev(t.a)), ts.BV(t.b.w, ev(t.b)))
			r = c.val
		default:
			c := ts.bin(t.op, ts.BV(t.w, ev(t.a)), ts.BV(t.w, ev(t.b)))
			r = c.val
		}
		memo[t.id] = r
		return r
	}
	return ev(t)
}

func (t *Term) String() string {
	if t.op == OpConst {
		if t.w == 0 {
			return fmt.Sprint(t.val == 1)
		}
		return fmt.Sprint(t.val)
	}
	if t.op == OpVar {
		return t.name
	}
	return fmt.Sprintf("<sym t%d:%s>", t.id, opNames[t.op])
}

// Vars collects the variables t depends on.
func (t *Term) Vars(seen map[int32]bool, out *[]*Term) {
	if t == nil || t.op == OpConst || seen[t.id] {
		return
	}
	seen[t.id] = true
	if t.op == OpVar {
		*out = append(*out, t)
		return
	}
	t.a.Vars(seen, out)
	t.b.Vars(seen, out)
	t.c.Vars(seen, out)
}
