package engine

import (
	"fmt"
	"go/types"
	"os"
	"sort"
	"strings"
	"sync"
	"time"

	"golang.org/x/tools/go/ssa"
)

// Config bounds one harness exploration.
type Config struct {
	Harness     string // fully qualified function name, e.g. "pkgpath.VerifH_X"
	MaxSteps    int64  // SSA instructions per path
	MaxDepth    int    // call depth
	MaxPaths    int    // paths per harness
	MaxDecs     int    // decisions per path
	MaxThreads  int
	Preemptions int
	NoPanic     bool // a panic escaping the harness is a violation
	NoDeadlock  bool // a deadlock is a violation (default: true when threads are used)
	NoLivelock  bool // exhausting the instruction budget is a violation (bounded termination), not inconclusive
	Workers     int
	SolverName  string
	TimeoutMs   int
	Known       map[string]bool // known-finding ids that are active (listed, not fixed)
	Trace       bool
	ReplayVals  map[string]uint64 // concrete replay: nd values by name
	ReplayDecs  []int
	ReplayKinds []string
	StopAtFirst bool
	FallbackMs  int // one-shot cvc5 integer-encoding fallback limit
	MaxWallS    int // wall-clock bound for the whole harness
	Thorough    bool
	FullSchedules bool // explore every scheduling choice (no delay bound)
	AllYields     bool // preemption points also inside library code loaded from source
}

func (c *Config) defaults() {
	if c.MaxSteps == 0 {
		c.MaxSteps = 2_000_000
	}
	if c.MaxDepth == 0 {
		c.MaxDepth = 200
	}
	if c.MaxPaths == 0 {
		c.MaxPaths = 200_000
	}
	if c.MaxDecs == 0 {
		c.MaxDecs = 4000
	}
	if c.MaxThreads == 0 {
		c.MaxThreads = 8
	}
	if c.Workers == 0 {
		c.Workers = 16
	}
	if c.SolverName == "" {
		// z3 5.1.0 (z3-new): 4.8.12 spends ~80x longer on the define-fun
		// heavy incremental scripts this engine produces (measured); 4.8.12 and
		// cvc5 remain the one-shot fall-back / cross-check back ends.
		c.SolverName = "z3-new"
		if s := os.Getenv("SYMGO_SOLVER"); s != "" {
			c.SolverName = s
		}
	}
	if c.TimeoutMs == 0 {
		c.TimeoutMs = 3000
	}
	if c.MaxWallS == 0 {
		c.MaxWallS = 900
	}
}

type decision struct {
	kind   string
	n      int // arity (2 for branches)
	choice int
	val    uint64 // concretize decisions: the candidate value
}

// pdec is one element of a decision prefix.
type pdec struct {
	c int
	v uint64
}

type ndVar struct {
	Name string
	T    *Term
}

// Machine is the per-path interpreter state.
type Machine struct {
	P       *Program
	cfg     *Config
	ts      *TermStore
	solver  *Solver
	globals map[*ssa.Global]*value

	runtimeErrorT types.Type

	// path
	prefix   []pdec
	decs     []decision
	pc       []*Term
	steps    int64
	forks    [][]pdec // sibling prefixes discovered on this path
	ndVars   []ndVar
	ndCount  map[string]int
	covers   map[string]bool
	asserts  int
	knownHit map[string]bool
	lenient  bool
	events   []string

	// threads
	threads     []*thread
	cur         *thread
	result      chan pathResult
	dead        bool
	wg          sync.WaitGroup
	preemptions int
	switches    int
	noPreempt   int
	nchans      int
	mutexes     map[*value]*mutexState
	lockLog     func(tid int, p *value, what string, acquire bool)
	permuteNext bool

	side map[any]any // intrinsic side tables (per path)

	funcsSeen map[*ssa.Function]*fnInfo
	clock     *Term
	nclock    int

	violation    *Violation
	lastModel    map[string]uint64
	nAux         int
	inKnown      string
	nIDs         int
	preemptBound int
	pendingVal   uint64

	lastPanicStack string
	fb             FallbackStats
	model          map[string]uint64 // a model of the current path condition, or nil
	replayPos      int
	axioms         int
	passCtx        value

	textMemo      map[int32]string
	pcTexts       []string
	pcKeyStr      string
	pcKeyValid    bool
	pcUncacheable bool
	cacheHits     int
}

type pathResult struct {
	abort       *engineAbort
	panicked    bool
	panicVal    string
	panicThread int
}

// Violation describes a counterexample.
type Violation struct {
	Harness   string            `json:"harness"`
	Kind      string            `json:"kind"` // assert | panic | deadlock
	Label     string            `json:"label"`
	Detail    string            `json:"detail"`
	Values    map[string]uint64 `json:"values"`
	Order     []string          `json:"order"`
	Decisions []int             `json:"decisions"`
	DecKinds  []string          `json:"decision_kinds"`
	Events    []string          `json:"events,omitempty"`
	KnownID   string            `json:"known_id,omitempty"`
	// Tier the counterexample was found in: a replay must run the harness in
	// the same tier (nd.Thorough() changes its shape)
	Tier string `json:"tier,omitempty"`
}

func (e engineAbort) isViolation() bool { return e.kind == abortViolation }

type violationCarrier struct {
	v *Violation
}

// branch decides a boolean condition: constant conditions are free; symbolic
// ones are decisions explored on both feasible sides.
func (m *Machine) branch(c *Term, kind string) bool {
	if c.IsTrue() {
		return true
	}
	if c.IsFalse() {
		return false
	}
	i := len(m.decs)
	if i >= m.cfg.MaxDecs {
		panic(engineAbort{abortBudget, fmt.Sprintf("decision bound %d exceeded", m.cfg.MaxDecs)})
	}
	if m.cfg.ReplayVals != nil {
		b := m.ts.Eval(c, m.cfg.ReplayVals) == 1
		m.decs = append(m.decs, decision{kind, 2, b2i(!b), 0})
		m.addPC(c, b)
		return b
	}
	if i < len(m.prefix) {
		b := m.prefix[i].c == 0
		m.decs = append(m.decs, decision{kind, 2, m.prefix[i].c, m.prefix[i].v})
		m.addPC(c, b)
		if m.model != nil && (m.ts.Eval(c, m.model) == 1) != b {
			m.model = nil // no longer a model of the path condition
		}
		return b
	}
	// new decision. A model of the current path condition (kept from the last
	// sat answer) decides one side for free.
	var vt, vf Verdict
	if m.model != nil {
		if m.ts.Eval(c, m.model) == 1 {
			vt = Sat
			vf = m.checkRefresh(m.ts.BNot(c), false)
		} else {
			vf = Sat
			vt = m.checkRefresh(c, true) // we will take this side if sat: refresh model
		}
		if vt == Unknown || vf == Unknown {
			panic(engineAbort{abortSolver, "solver unknown on branch feasibility"})
		}
	} else {
		vt = m.checkRefresh(c, true)
		if vt == Unknown {
			panic(engineAbort{abortSolver, "solver unknown on branch feasibility"})
		}
		if vt == Unsat {
			vf = Sat // pc is satisfiable, so the other side must be
		} else {
			vf = m.check(m.ts.BNot(c))
			if vf == Unknown {
				panic(engineAbort{abortSolver, "solver unknown on branch feasibility"})
			}
		}
	}
	if vt == Sat && vf == Sat {
		sib := m.sibling(i)
		sib[i] = pdec{1, m.pendingVal}
		m.forks = append(m.forks, sib)
	}
	b := vt == Sat
	m.decs = append(m.decs, decision{kind, 2, b2i(!b), m.pendingVal})
	if vt == Sat && vf == Sat {
		m.addPC(c, b)
	}
	// when only one side is feasible the condition is implied by pc; adding it
	// is unnecessary.
	return b
}

func (m *Machine) sibling(i int) []pdec {
	sib := make([]pdec, i+1)
	for j, d := range m.decs {
		sib[j] = pdec{d.choice, d.val}
	}
	return sib
}

func b2i(b bool) int {
	if b {
		return 1
	}
	return 0
}

func (m *Machine) addPC(c *Term, b bool) {
	if !b {
		c = m.ts.BNot(c)
	}
	m.pushPC(c)
	m.solver.Assert(c)
}

func (m *Machine) check(extra *Term) Verdict {
	return m.checkSat(extra)
}

// choose makes an n-way nondeterministic choice (scheduler, select, Choice).
func (m *Machine) choose(n int, kind string) int {
	if n <= 1 {
		return 0
	}
	i := len(m.decs)
	if i >= m.cfg.MaxDecs {
		panic(engineAbort{abortBudget, fmt.Sprintf("decision bound %d exceeded", m.cfg.MaxDecs)})
	}
	if m.cfg.ReplayVals != nil {
		// follow the recorded choices, matched by kind (branch decisions are
		// re-evaluated from the values and may be positioned differently)
		k := 0
		for m.replayPos < len(m.cfg.ReplayDecs) {
			p := m.replayPos
			m.replayPos++
			if p < len(m.cfg.ReplayKinds) && m.cfg.ReplayKinds[p] == kind {
				k = m.cfg.ReplayDecs[p]
				break
			}
		}
		if k >= n {
			k = 0
		}
		m.decs = append(m.decs, decision{kind, n, k, 0})
		return k
	}
	if i < len(m.prefix) {
		k := m.prefix[i].c
		m.decs = append(m.decs, decision{kind, n, k, 0})
		return k
	}
	for k := n - 1; k >= 1; k-- {
		sib := m.sibling(i)
		sib[i] = pdec{k, 0}
		m.forks = append(m.forks, sib)
	}
	m.decs = append(m.decs, decision{kind, n, 0, 0})
	return 0
}

// concretize forks over the feasible values of t (small domains only).
func (m *Machine) concretize(t *Term, what string) int64 {
	if m.cfg.ReplayVals != nil {
		v := m.ts.Eval(t, m.cfg.ReplayVals)
		return sext(v, t.w)
	}
	// enumerate models: ask solver for a value, fork eq / neq. The candidate
	// value is stored in the decision so that prefix replay is deterministic.
	for tries := 0; tries < 64; tries++ {
		var v uint64
		if i := len(m.decs); i < len(m.prefix) {
			v = m.prefix[i].v
		} else {
			var ok bool
			v, ok = m.valueOf(t)
			if !ok {
				panic(engineAbort{abortSolver, "solver unknown while concretising " + what})
			}
		}
		c := m.ts.Eq(t, m.ts.BV(t.w, v))
		m.pendingVal = v
		b := m.branch(c, "concretize:"+what)
		m.pendingVal = 0
		if b {
			return sext(v, t.w)
		}
	}
	m.unsupported("symbolic " + what + " with more than 64 feasible values")
	return 0
}

// valueOf returns some feasible value of t under the path condition. During
// prefix replay the decision already fixes it, so we derive the value from
// the recorded choice by re-asking the solver (deterministic per scope).
func (m *Machine) valueOf(t *Term) (uint64, bool) {
	// Use a fresh variable equated to t to read its value.
	m.nAux++
	aux := m.ts.Var(t.w, fmt.Sprintf("aux!%d", m.nAux))
	eq := m.ts.Eq(aux, t)
	v := m.solver.Check(eq)
	for retry := 0; v == Unknown && retry < 3; retry++ {
		// a timeout on a loaded machine is transient: ask again
		v = m.solver.Check(eq)
	}
	if v != Sat {
		return 0, false
	}
	mod := m.solver.Model([]*Term{aux})
	m.solver.ModelDone()
	return mod[aux.name], true
}

func (m *Machine) freshVar(w uint8, tag string) *Term {
	n := m.ndCount[tag]
	m.ndCount[tag] = n + 1
	name := tag
	if n > 0 {
		name = fmt.Sprintf("%s#%d", tag, n)
	}
	t := m.ts.Var(w, name)
	m.ndVars = append(m.ndVars, ndVar{name, t})
	// Under concrete replay the variable stays symbolic and every decision is
	// evaluated under the recorded values, so that decision positions line up
	// with the recorded run.
	return t
}

func (m *Machine) assume(c *Term) {
	if c.IsTrue() {
		return
	}
	if c.IsFalse() {
		panic(engineAbort{abortInfeasible, "assume(false)"})
	}
	if m.cfg.ReplayVals != nil {
		if m.ts.Eval(c, m.cfg.ReplayVals) != 1 {
			panic(engineAbort{abortInfeasible, "assume fails under replay values"})
		}
		return
	}
	if len(m.decs) < len(m.prefix) {
		// replaying: feasibility known
		m.pushPC(c)
		m.solver.Assert(c)
		if m.model != nil && m.ts.Eval(c, m.model) != 1 {
			m.model = nil
		}
		return
	}
	if m.model == nil || m.ts.Eval(c, m.model) != 1 {
		v := m.checkRefresh(c, true)
		switch v {
		case Unsat:
			panic(engineAbort{abortInfeasible, "assumption infeasible"})
		case Unknown:
			panic(engineAbort{abortSolver, "solver unknown on assume"})
		}
	}
	m.pushPC(c)
	m.solver.Assert(c)
}

// assert checks c on the current path; a sat answer for pc ∧ ¬c is a
// counterexample.
func (m *Machine) assert(c *Term, label string, fr *frame) {
	m.asserts++
	if c.IsTrue() {
		return
	}
	if m.cfg.ReplayVals != nil {
		if m.ts.Eval(c, m.cfg.ReplayVals) != 1 {
			m.violate("assert", label, "assertion fails under replay values", m.cfg.ReplayVals, fr)
		}
		return
	}
	nc := m.ts.BNot(c)
	key, cv, hit := m.cacheLookup(nc)
	if hit && cv == Unsat {
		return
	}
	v, model := m.checkSatModel(nc)
	m.cacheStore(key, v)
	switch v {
	case Unsat:
		// holds on this path; c is implied, no need to add
		return
	case Unknown:
		panic(engineAbort{abortSolver, "solver unknown on assertion " + label})
	}
	m.violate("assert", label, "", model, fr)
}

func (m *Machine) violate(kind, label, detail string, model map[string]uint64, fr *frame) {
	v := &Violation{Harness: m.cfg.Harness, Kind: kind, Label: label, Detail: detail, Values: map[string]uint64{}}
	for _, nv := range m.ndVars {
		v.Order = append(v.Order, nv.Name)
		v.Values[nv.Name] = model[nv.Name]
	}
	for _, d := range m.decs {
		v.Decisions = append(v.Decisions, d.choice)
		v.DecKinds = append(v.DecKinds, d.kind)
	}
	v.Events = append(v.Events, m.events...)
	v.KnownID = m.inKnown
	if fr != nil {
		v.Detail += m.where(fr)
	}
	m.violation = v
	panic(engineAbort{abortViolation, label})
}

// currentModel returns a model of the path condition (for panics/deadlocks).
func (m *Machine) currentModel() map[string]uint64 {
	if m.cfg.ReplayVals != nil {
		return m.cfg.ReplayVals
	}
	if m.solver.Check() != Sat {
		return map[string]uint64{}
	}
	vars := make([]*Term, 0, len(m.ndVars))
	for _, v := range m.ndVars {
		vars = append(vars, v.T)
	}
	return m.solver.Model(vars)
}

// ---------------------------------------------------------------------------
// Exploration

type PathSample struct {
	Decisions int               `json:"decisions"`
	Steps     int64             `json:"ssa_instructions"`
	Outcome   string            `json:"outcome"`
	Covers    []string          `json:"covers,omitempty"`
	Model     map[string]uint64 `json:"model,omitempty"`
}

type Result struct {
	Harness      string
	Paths        int
	Completed    int
	Infeasible   int
	Panicked     int
	Deadlocked   int
	Decisions    int
	SymPaths     int // paths with >= 1 symbolic decision
	Steps        int64
	Asserts      int
	Violations   []*Violation
	Inconclusive []string
	Covers       map[string]int
	KnownHits    map[string]int
	Funcs        map[string]int // function -> ssa instruction count
	Solver       SolverStats
	Fallback     FallbackStats
	CacheHits    int
	MaxPathSteps int64
	MaxPathDecs  int
	Samples      []PathSample
	Wall         float64
	Threads      int
}

func (p *Program) Explore(cfg Config) *Result {
	cfg.defaults()
	t0 := time.Now()
	res := &Result{Harness: cfg.Harness, Covers: map[string]int{}, KnownHits: map[string]int{}, Funcs: map[string]int{}}
	fn := p.LookupFunc(cfg.Harness)
	if fn == nil {
		res.Inconclusive = append(res.Inconclusive, "harness not found: "+cfg.Harness)
		return res
	}
	var mu sync.Mutex
	frontier := [][]pdec{{}}
	active := 0
	cond := sync.NewCond(&mu)
	stop := false
	nw := cfg.Workers
	if cfg.ReplayVals != nil {
		nw = 1
	}
	var wg sync.WaitGroup
	for w := 0; w < nw; w++ {
		wg.Add(1)
		go func() {
			defer wg.Done()
			solver, err := NewSolver(cfg.SolverName, cfg.TimeoutMs)
			if err != nil {
				mu.Lock()
				res.Inconclusive = append(res.Inconclusive, "cannot start solver: "+err.Error())
				stop = true
				cond.Broadcast()
				mu.Unlock()
				return
			}
			defer func() {
				mu.Lock()
				res.Solver.Sat += solver.Stats.Sat
				res.Solver.Unsat += solver.Stats.Unsat
				res.Solver.Unknown += solver.Stats.Unknown
				res.Solver.Seconds += solver.Stats.Seconds
				res.Solver.BytesSent += solver.Stats.BytesSent
				res.Solver.SendSeconds += solver.Stats.SendSeconds
				mu.Unlock()
				solver.Close()
			}()
			for {
				mu.Lock()
				for len(frontier) == 0 && active > 0 && !stop {
					cond.Wait()
				}
				if stop || (len(frontier) == 0 && active == 0) {
					cond.Broadcast()
					mu.Unlock()
					return
				}
				if cfg.MaxWallS > 0 && time.Since(t0).Seconds() > float64(cfg.MaxWallS) {
					res.Inconclusive = append(res.Inconclusive, fmt.Sprintf("wall-clock bound %ds exceeded with %d prefixes unexplored", cfg.MaxWallS, len(frontier)))
					stop = true
					cond.Broadcast()
					mu.Unlock()
					return
				}
				prefix := frontier[len(frontier)-1]
				frontier = frontier[:len(frontier)-1]
				active++
				if res.Paths >= cfg.MaxPaths {
					res.Inconclusive = append(res.Inconclusive, fmt.Sprintf("path bound %d exceeded", cfg.MaxPaths))
					stop = true
					active--
					cond.Broadcast()
					mu.Unlock()
					return
				}
				res.Paths++
				mu.Unlock()

				m, pr := p.runPath(&cfg, fn, prefix, solver)

				mu.Lock()
				active--
				frontier = append(frontier, m.forks...)
				res.Steps += m.steps
				res.CacheHits += m.cacheHits
				res.Fallback.Sat += m.fb.Sat
				res.Fallback.Unsat += m.fb.Unsat
				res.Fallback.Unknown += m.fb.Unknown
				res.Fallback.Seconds += m.fb.Seconds
				res.Decisions += len(m.decs)
				res.Asserts += m.asserts
				if m.steps > res.MaxPathSteps {
					res.MaxPathSteps = m.steps
				}
				if len(m.decs) > res.MaxPathDecs {
					res.MaxPathDecs = len(m.decs)
				}
				if len(m.threads) > res.Threads {
					res.Threads = len(m.threads)
				}
				sym := false
				for _, d := range m.decs {
					if d.n >= 2 {
						sym = true
					}
				}
				if sym || len(m.ndVars) > 0 {
					res.SymPaths++
				}
				for c := range m.covers {
					res.Covers[c]++
				}
				for k := range m.knownHit {
					res.KnownHits[k]++
				}
				for f, fi := range m.funcsSeen {
					res.Funcs[f.String()] = fi.nInstr
				}
				outcome := "completed"
				switch {
				case pr.abort != nil:
					switch pr.abort.kind {
					case abortInfeasible:
						res.Infeasible++
						outcome = "pruned(assume)"
					case abortEnd:
						res.Completed++
					case abortViolation:
						outcome = "VIOLATION " + pr.abort.msg
						if m.violation != nil {
							res.Violations = append(res.Violations, m.violation)
						}
						if cfg.StopAtFirst {
							stop = true
						}
					case abortDeadlock, abortLivelock:
						res.Deadlocked++
						outcome = abortNames[pr.abort.kind]
						if cfg.NoDeadlock || pr.abort.kind == abortLivelock {
							v := &Violation{Harness: cfg.Harness, Kind: outcome, Label: outcome, Detail: pr.abort.msg, Values: m.lastModel, Events: m.events, KnownID: m.inKnown}
							for _, nv := range m.ndVars {
								v.Order = append(v.Order, nv.Name)
							}
							for _, d := range m.decs {
								v.Decisions = append(v.Decisions, d.choice)
								v.DecKinds = append(v.DecKinds, d.kind)
							}
							res.Violations = append(res.Violations, v)
							if cfg.StopAtFirst {
								stop = true
							}
						}
					default:
						outcome = "inconclusive: " + pr.abort.String()
						if len(res.Inconclusive) < 20 {
							res.Inconclusive = append(res.Inconclusive, pr.abort.String())
						}
					}
				case pr.panicked:
					res.Panicked++
					outcome = "panic: " + pr.panicVal
					if cfg.NoPanic {
						v := &Violation{Harness: cfg.Harness, Kind: "panic", Label: "panic", Detail: pr.panicVal, Values: m.lastModel, Events: m.events, KnownID: m.inKnown}
						for _, nv := range m.ndVars {
							v.Order = append(v.Order, nv.Name)
						}
						for _, d := range m.decs {
							v.Decisions = append(v.Decisions, d.choice)
							v.DecKinds = append(v.DecKinds, d.kind)
						}
						res.Violations = append(res.Violations, v)
						if cfg.StopAtFirst {
							stop = true
						}
					}
				default:
					res.Completed++
				}
				if len(res.Samples) < 6 && (len(m.ndVars) > 0 || len(m.decs) > 0) {
					s := PathSample{Decisions: len(m.decs), Steps: m.steps, Outcome: outcome, Model: m.lastModel}
					for c := range m.covers {
						s.Covers = append(s.Covers, c)
					}
					sort.Strings(s.Covers)
					res.Samples = append(res.Samples, s)
				}
				if cfg.Trace {
					var ks []string
					for _, d := range m.decs {
						ks = append(ks, fmt.Sprintf("%s=%d/%d", d.kind, d.choice, d.n))
					}
					fmt.Printf("  path %s -> %s (steps %d)\n", strings.Join(ks, " "), outcome, m.steps)
				}
				cond.Broadcast()
				mu.Unlock()
			}
		}()
	}
	progDone := make(chan struct{})
	go func() {
		tk := time.NewTicker(20 * time.Second)
		defer tk.Stop()
		for {
			select {
			case <-tk.C:
				mu.Lock()
				fmt.Fprintf(os.Stderr, "    ... %s: %d paths done, frontier %d, violations %d, %.0fs\n",
					cfg.Harness[strings.LastIndex(cfg.Harness, ".")+1:], res.Paths, len(frontier), len(res.Violations), time.Since(t0).Seconds())
				mu.Unlock()
			case <-progDone:
				return
			}
		}
	}()
	wg.Wait()
	close(progDone)
	res.Wall = time.Since(t0).Seconds()
	return res
}

// runPath executes the harness once under the given decision prefix.
func (p *Program) runPath(cfg *Config, fn *ssa.Function, prefix []pdec, solver *Solver) (*Machine, pathResult) {
	m := &Machine{
		P: p, cfg: cfg, ts: NewTermStore(), solver: solver,
		globals: map[*ssa.Global]*value{}, prefix: prefix,
		ndCount: map[string]int{}, covers: map[string]bool{}, knownHit: map[string]bool{},
		result: make(chan pathResult, 1), mutexes: map[*value]*mutexState{},
		side: map[any]any{}, funcsSeen: map[*ssa.Function]*fnInfo{},
		model: map[string]uint64{}, textMemo: map[int32]string{},
	}
	m.runtimeErrorT = p.runtimeErrorT
	solver.Push()
	t := &thread{id: 0, name: "main", wake: make(chan struct{}, 1)}
	m.threads = []*thread{t}
	m.cur = t
	m.wg.Add(1)
	go func() {
		defer m.wg.Done()
		<-t.wake
		m.runThread(t, func() {
			m.lenient = true
			m.noPreempt++
			for _, init := range p.Inits {
				if os.Getenv("VERIF_DEBUG_INIT") != "" {
					fmt.Fprintf(os.Stderr, "init %s start\n", init)
				}
				m.call(nil, nil, init, nil)
				if os.Getenv("VERIF_DEBUG_INIT") != "" {
					fmt.Fprintf(os.Stderr, "init %s done steps=%d\n", init, m.steps)
				}
			}
			m.noPreempt--
			m.lenient = false
			m.steps = 0
			m.funcsSeen = map[*ssa.Function]*fnInfo{}
			m.call(nil, nil, fn, nil)
		})
	}()
	t.wake <- struct{}{}
	pr := <-m.result
	// need a model for samples / panic / deadlock reports: only when useful
	if m.axioms > 0 && cfg.ReplayVals == nil && pr.abort == nil && !pr.panicked {
		// model axioms were added without feasibility queries: a completed
		// path only counts if its path condition is satisfiable
		func() {
			defer func() {
				if r := recover(); r != nil {
					pr = pathResult{abort: &engineAbort{abortSolver, "solver failure while checking satisfiability of a path with model axioms"}}
				}
			}()
			if v := m.checkSat(m.ts.True); v != Sat {
				pr = pathResult{abort: &engineAbort{abortSolver, "path with model axioms is not satisfiable (" + v.String() + "): vacuous"}}
			}
		}()
	}
	isDeadlock := pr.abort != nil && (pr.abort.kind == abortDeadlock || pr.abort.kind == abortLivelock)
	if pr.panicked || isDeadlock || len(m.forks) > 0 || len(prefix) == 0 {
		func() {
			defer func() {
				if r := recover(); r != nil && (pr.panicked || isDeadlock) {
					pr = pathResult{abort: &engineAbort{abortSolver, "solver failure while confirming a panic/deadlock path"}}
				}
			}()
			if cfg.ReplayVals == nil && (pr.abort == nil || isDeadlock) {
				// a panic or deadlock is only reported for a satisfiable path
				// condition; anything else is an engine defect, never a finding
				if len(m.pc) > 0 || len(m.ndVars) > 0 {
					v := m.checkSat(m.ts.True)
					if v != Sat && (pr.panicked || isDeadlock) {
						pr = pathResult{abort: &engineAbort{abortSolver, "path condition not satisfiable (" + v.String() + ") on a panic/deadlock path"}}
						return
					}
					if v == Sat && len(m.ndVars) > 0 {
						m.lastModel = m.currentModel()
					}
				}
			}
		}()
	}
	m.dead = true
	for _, th := range m.threads {
		if !th.done {
			select {
			case th.wake <- struct{}{}:
			default:
			}
		}
	}
	m.wg.Wait()
	func() {
		defer func() { recover() }()
		solver.ModelDone()
		for len(solver.scopes) > 1 {
			solver.Pop()
		}
	}()
	return m, pr
}

func (m *Machine) noteFunc(fn *ssa.Function, fi *fnInfo) {
	if m.lenient {
		return
	}
	if _, ok := m.funcsSeen[fn]; !ok {
		m.funcsSeen[fn] = fi
	}
}

func (r *Result) Summary() string {
	var sb strings.Builder
	fmt.Fprintf(&sb, "%s: paths=%d completed=%d pruned=%d panicked=%d deadlocked=%d decisions=%d asserts=%d steps=%d solver(sat=%d unsat=%d unknown=%d %.1fs; sent %dMB in %.1fs; cache hits %d) wall=%.1fs",
		r.Harness, r.Paths, r.Completed, r.Infeasible, r.Panicked, r.Deadlocked, r.Decisions, r.Asserts, r.Steps,
		r.Solver.Sat, r.Solver.Unsat, r.Solver.Unknown, r.Solver.Seconds, r.Solver.BytesSent>>20, r.Solver.SendSeconds, r.CacheHits, r.Wall)
	if len(r.Violations) > 0 {
		fmt.Fprintf(&sb, " VIOLATIONS=%d", len(r.Violations))
	}
	if len(r.Inconclusive) > 0 {
		fmt.Fprintf(&sb, " INCONCLUSIVE=%d (%s)", len(r.Inconclusive), r.Inconclusive[0])
	}
	return sb.String()
}
