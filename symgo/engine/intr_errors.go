package engine

import "strings"

func init() {
	// errors.joinError.Error uses unsafe.String(&b[0], n); same result here.
	reg("(*errors.joinError).Error", func(fr *frame, a []value) value {
		m := fr.m
		st := (*m.ptrArg(a[0])).(structure)
		errs, _ := st[0].([]value)
		parts := make([]string, 0, len(errs))
		for _, e := range errs {
			parts = append(parts, m.fmtValue(fr, e, 'v'))
		}
		return strings.Join(parts, "\n")
	})
}
