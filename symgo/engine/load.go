package engine

import (
	"fmt"
	"go/types"
	"os"
	"path/filepath"
	"sort"
	"strings"
	"sync"
	"time"

	"golang.org/x/tools/go/packages"
	"golang.org/x/tools/go/ssa"
	"golang.org/x/tools/go/ssa/ssautil"
)

const RepoDir = "/repo"
const RepoMod = "github.com/celestiaorg/celestia-node"
const NdPkg = RepoMod + "/verifnd"

// LoadSpec says what to load for one check.
type LoadSpec struct {
	Patterns     []string          // packages loaded from source (repo-relative "./x" or import paths)
	Overlay      map[string]string // virtual path under /repo -> real file
	Replacements map[string]string // callee name -> harness function "pkg.Func"
	NoopPkgs     []string          // extra package-path prefixes whose body-less functions are no-ops
	InitPkgs     []string          // package paths whose init functions run before each path
}

type Program struct {
	Prog          *ssa.Program
	Pkgs          []*ssa.Package
	byPath        map[string]*ssa.Package
	infos         map[*ssa.Function]*fnInfo
	mu            sync.Mutex
	Inits         []*ssa.Function
	runtimeErrorT types.Type
	repl          map[string]*ssa.Function
	noop          []string
	LoadSeconds   float64
	SourcePkgs    []string
	Fingerprint   string
	qcache        *queryCache
}

const ToolchainBin = "/root/go/pkg/mod/golang.org/toolchain@v0.0.1-go1.26.2.linux-amd64/bin"

// GoEnv is the environment for every go command the framework runs: the
// repository's own toolchain (go 1.26.2 from the module cache), offline.
func GoEnv() []string {
	env := []string{}
	for _, e := range os.Environ() {
		if strings.HasPrefix(e, "PATH=") || strings.HasPrefix(e, "GOFLAGS=") || strings.HasPrefix(e, "GOTOOLCHAIN=") || strings.HasPrefix(e, "GOPROXY=") {
			continue
		}
		env = append(env, e)
	}
	return append(env, "PATH="+ToolchainBin+":"+os.Getenv("PATH"), "GOFLAGS=-mod=mod", "GOPROXY=off", "GOTOOLCHAIN=local", "CGO_ENABLED=1")
}

var defaultNoop = []string{
	"go.uber.org/zap", "github.com/ipfs/go-log", "go.opentelemetry.io/", "github.com/prometheus/",
	"log", "log/slog", "runtime/debug", "runtime/pprof", "runtime/trace", "expvar",
}

func Load(spec LoadSpec) (*Program, error) {
	t0 := time.Now()
	overlay := map[string][]byte{}
	for virt, real := range spec.Overlay {
		b, err := os.ReadFile(real)
		if err != nil {
			return nil, err
		}
		overlay[filepath.Join(RepoDir, virt)] = b
	}
	cfg := &packages.Config{
		Mode: packages.NeedName | packages.NeedFiles | packages.NeedCompiledGoFiles | packages.NeedImports |
			packages.NeedTypes | packages.NeedSyntax | packages.NeedTypesInfo | packages.NeedTypesSizes | packages.NeedModule,
		Dir:     RepoDir,
		Overlay: overlay,
		Env:     GoEnv(),
	}
	pkgs, err := packages.Load(cfg, spec.Patterns...)
	if err != nil {
		return nil, err
	}
	var errs []string
	for _, p := range pkgs {
		for _, e := range p.Errors {
			errs = append(errs, e.Error())
		}
	}
	if len(errs) > 0 {
		if len(errs) > 10 {
			errs = errs[:10]
		}
		return nil, fmt.Errorf("package errors:\n  %s", strings.Join(errs, "\n  "))
	}
	prog, spkgs := ssautil.Packages(pkgs, ssa.InstantiateGenerics|ssa.SanityCheckFunctions&0)
	P := &Program{Prog: prog, byPath: map[string]*ssa.Package{}, infos: map[*ssa.Function]*fnInfo{}, repl: map[string]*ssa.Function{}, qcache: &queryCache{}}
	for i, sp := range spkgs {
		if sp == nil {
			return nil, fmt.Errorf("no SSA package for %s", pkgs[i].PkgPath)
		}
		sp.Build()
		P.Pkgs = append(P.Pkgs, sp)
		P.byPath[sp.Pkg.Path()] = sp
		P.SourcePkgs = append(P.SourcePkgs, sp.Pkg.Path())
	}
	sort.Strings(P.SourcePkgs)
	if rt := prog.ImportedPackage("runtime"); rt != nil {
		if t := rt.Type("errorString"); t != nil {
			P.runtimeErrorT = t.Type()
		}
	}
	if P.runtimeErrorT == nil {
		return nil, fmt.Errorf("runtime.errorString not found")
	}
	P.noop = append(append([]string{}, defaultNoop...), spec.NoopPkgs...)
	for callee, h := range spec.Replacements {
		f := P.LookupFunc(h)
		if f == nil {
			return nil, fmt.Errorf("replacement %s: harness function %s not found", callee, h)
		}
		P.repl[callee] = f
	}
	for _, ip := range spec.InitPkgs {
		sp := P.byPath[ip]
		if sp == nil {
			return nil, fmt.Errorf("init package %s not loaded from source", ip)
		}
		P.Inits = append(P.Inits, sp.Func("init"))
	}
	P.LoadSeconds = time.Since(t0).Seconds()
	return P, nil
}

// LookupFunc finds "pkgpath.Func" or "pkgpath.(T).Method" / "(*pkgpath.T).Method".
func (p *Program) LookupFunc(name string) *ssa.Function {
	i := strings.LastIndex(name, ".")
	if i < 0 {
		return nil
	}
	pkg, fn := name[:i], name[i+1:]
	if sp := p.byPath[pkg]; sp != nil {
		if f := sp.Func(fn); f != nil {
			return f
		}
	}
	return nil
}

func (p *Program) resolve(name string, fn *ssa.Function) *resolved {
	if r, ok := p.repl[name]; ok {
		return &resolved{repl: r}
	}
	if in, ok := intrinsics[name]; ok {
		return &resolved{intr: in}
	}
	if in := prefixIntrinsic(name); in != nil {
		return &resolved{intr: in}
	}
	if fn.Blocks == nil {
		pkg := ""
		if fn.Pkg != nil {
			pkg = fn.Pkg.Pkg.Path()
		} else if recv := fn.Signature.Recv(); recv != nil {
			pkg = pkgOfType(recv.Type())
		} else if o := fn.Object(); o != nil && o.Pkg() != nil {
			pkg = o.Pkg().Path()
		}
		for _, pre := range p.noop {
			if pkg == pre || strings.HasPrefix(pkg, pre) {
				return &resolved{noop: true}
			}
		}
	}
	return nil
}

func pkgOfType(t types.Type) string {
	for {
		switch u := t.(type) {
		case *types.Pointer:
			t = u.Elem()
			continue
		case *types.Named:
			if u.Obj().Pkg() != nil {
				return u.Obj().Pkg().Path()
			}
			return ""
		case *types.Alias:
			t = types.Unalias(u)
			continue
		}
		return ""
	}
}
