package engine

import (
	"fmt"
	"go/types"
	"strings"
)

// Map is an insertion-ordered map. Keys may be symbolic: lookups against
// symbolic keys fork on key equality (each comparison is a decision), so on
// every path the keys present are pairwise distinct under the path condition.
type Map struct {
	keyT    types.Type
	elemT   types.Type
	entries []*mapEntry
	idx     map[string]*mapEntry // concrete-key index
	nsym    int                  // live entries with a non-concrete key
	n       int                  // live entries
}

type mapEntry struct {
	key, val value
	ck      string
	conc    bool
	deleted bool
}

func newMap(kt, et types.Type) *Map {
	return &Map{keyT: kt, elemT: et, idx: map[string]*mapEntry{}}
}

// concKey returns a canonical string for a fully concrete key.
func concKey(sb *strings.Builder, v value) bool {
	switch v := v.(type) {
	case *Term:
		if !v.IsConst() {
			return false
		}
		fmt.Fprintf(sb, "i%d:%d;", v.w, v.val)
	case string:
		fmt.Fprintf(sb, "s%d:%s;", len(v), v)
	case *SymString:
		return false
	case float32, float64, complex64, complex128:
		fmt.Fprintf(sb, "f%v;", v)
	case *value:
		fmt.Fprintf(sb, "p%p;", v)
	case *Chan:
		fmt.Fprintf(sb, "c%p;", v)
	case *Map:
		fmt.Fprintf(sb, "m%p;", v)
	case iface:
		if v.t == nil {
			sb.WriteString("nil;")
			return true
		}
		fmt.Fprintf(sb, "I%s(", types.TypeString(v.t, nil))
		if !concKey(sb, v.v) {
			return false
		}
		sb.WriteString(");")
	case structure:
		sb.WriteString("{")
		for _, f := range v {
			if !concKey(sb, f) {
				return false
			}
		}
		sb.WriteString("}")
	case array:
		sb.WriteString("[")
		for _, f := range v {
			if !concKey(sb, f) {
				return false
			}
		}
		sb.WriteString("]")
	case rtype:
		fmt.Fprintf(sb, "T%s;", v.t)
	case *opaque:
		fmt.Fprintf(sb, "o%p;", v)
	default:
		panic(fmt.Sprintf("unhashable map key %T", v))
	}
	return true
}

func ckOf(k value) (string, bool) {
	var sb strings.Builder
	ok := concKey(&sb, k)
	return sb.String(), ok
}

// find returns the entry for k or nil. May fork.
func (m *Machine) mapFind(mp *Map, k value) *mapEntry {
	if mp == nil {
		return nil
	}
	ck, conc := ckOf(k)
	if conc && mp.nsym == 0 {
		return mp.idx[ck]
	}
	if conc {
		if e := mp.idx[ck]; e != nil {
			return e
		}
	}
	for _, e := range mp.entries {
		if e.deleted {
			continue
		}
		if conc && e.conc {
			continue // different concrete keys (index miss above)
		}
		c := m.equals(mp.keyT, k, e.key)
		if m.branch(c, "mapkey") {
			return e
		}
	}
	return nil
}

func (m *Machine) mapLookup(mp *Map, k value) (value, bool) {
	e := m.mapFind(mp, k)
	if e == nil {
		return nil, false
	}
	return e.val, true
}

func (m *Machine) mapInsert(mp *Map, k, v value) {
	if mp == nil {
		panic(targetPanic{m.runtimeError("assignment to entry in nil map")})
	}
	if e := m.mapFind(mp, k); e != nil {
		e.val = v
		return
	}
	ck, conc := ckOf(k)
	e := &mapEntry{key: k, val: v, ck: ck, conc: conc}
	mp.entries = append(mp.entries, e)
	mp.n++
	if conc {
		mp.idx[ck] = e
	} else {
		mp.nsym++
	}
}

func (m *Machine) mapDelete(mp *Map, k value) {
	if mp == nil {
		return
	}
	e := m.mapFind(mp, k)
	if e == nil {
		return
	}
	e.deleted = true
	mp.n--
	if e.conc {
		delete(mp.idx, e.ck)
	} else {
		mp.nsym--
	}
	// compact occasionally
	if len(mp.entries) > 32 && mp.n*2 < len(mp.entries) {
		live := mp.entries[:0:0]
		for _, e := range mp.entries {
			if !e.deleted {
				live = append(live, e)
			}
		}
		mp.entries = live
	}
}

func (mp *Map) length() int {
	if mp == nil {
		return 0
	}
	return mp.n
}

type mapIter struct {
	m     *Machine
	snap  []*mapEntry
	i     int
	keyT  types.Type
	elemT types.Type
}

func (m *Machine) newMapIter(mp *Map) *mapIter {
	it := &mapIter{m: m}
	if mp != nil {
		it.snap = append(it.snap, mp.entries...)
		it.keyT, it.elemT = mp.keyT, mp.elemT
		if m.permuteNext {
			m.permuteNext = false
			it.snap = m.permute(it.snap)
		}
	}
	return it
}

func (it *mapIter) next() tuple {
	for it.i < len(it.snap) {
		e := it.snap[it.i]
		it.i++
		if e.deleted {
			continue
		}
		return tuple{it.m.ts.True, copyVal(it.keyT, e.key), copyVal(it.elemT, e.val)}
	}
	return tuple{it.m.ts.False, nil, nil}
}

// permute reorders live entries by a sequence of scheduler-style decisions so
// that code depending on Go's unspecified iteration order sees every order.
func (m *Machine) permute(es []*mapEntry) []*mapEntry {
	var live []*mapEntry
	for _, e := range es {
		if !e.deleted {
			live = append(live, e)
		}
	}
	out := make([]*mapEntry, 0, len(live))
	for len(live) > 1 {
		k := m.choose(len(live), "maporder")
		out = append(out, live[k])
		live = append(live[:k:k], live[k+1:]...)
	}
	return append(out, live...)
}
