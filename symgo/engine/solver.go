package engine

import (
	"bufio"
	"fmt"
	"io"
	"os"
	"os/exec"
	"strconv"
	"strings"
	"time"
)

// Solver is one long-lived SMT process (z3 -in / cvc5 --incremental).
type Solver struct {
	Name    string
	cmd     *exec.Cmd
	in      io.WriteCloser
	out     *bufio.Reader
	defined map[int32]bool
	scopes  []map[int32]bool // ids defined per push level (for pop)
	Stats   SolverStats
	timeout    time.Duration
	log        io.Writer
	pendingPop bool
}

type SolverStats struct {
	Sat, Unsat, Unknown int
	Seconds             float64
	BytesSent           int64
	SendSeconds         float64
}

type Verdict int

const (
	Unsat Verdict = iota
	Sat
	Unknown
)

func (v Verdict) String() string { return [...]string{"unsat", "sat", "unknown"}[v] }

func solverArgv(name string, timeoutMs int) []string {
	switch name {
	case "z3":
		return []string{"z3", "-in", fmt.Sprintf("-t:%d", timeoutMs)}
	case "z3-new":
		return []string{"z3-new", "-in", fmt.Sprintf("-t:%d", timeoutMs)}
	case "cvc5":
		return []string{"cvc5", "--incremental", "--produce-models", "--lang=smt2", fmt.Sprintf("--tlimit-per=%d", timeoutMs)}
	}
	panic("unknown solver " + name)
}

func NewSolver(name string, timeoutMs int) (*Solver, error) {
	argv := solverArgv(name, timeoutMs)
	cmd := exec.Command(argv[0], argv[1:]...)
	in, err := cmd.StdinPipe()
	if err != nil {
		return nil, err
	}
	out, err := cmd.StdoutPipe()
	if err != nil {
		return nil, err
	}
	cmd.Stderr = cmd.Stdout
	if err := cmd.Start(); err != nil {
		return nil, err
	}
	s := &Solver{Name: name, cmd: cmd, in: in, out: bufio.NewReaderSize(out, 1<<16), defined: map[int32]bool{}, scopes: []map[int32]bool{{}}}
	if p := os.Getenv("SYMGO_SOLVER_LOG"); p != "" {
		if f, err := os.OpenFile(p, os.O_CREATE|os.O_EXCL|os.O_WRONLY, 0o644); err == nil {
			s.log = f // only the first solver process wins the O_EXCL create
		}
	}
	s.send("(set-option :produce-models true)\n")
	if name == "cvc5" {
		s.send("(set-logic QF_BV)\n")
	}
	return s, nil
}

func (s *Solver) Close() {
	if s == nil || s.cmd == nil {
		return
	}
	s.in.Close()
	s.cmd.Process.Kill()
	s.cmd.Wait()
	s.cmd = nil
}

func (s *Solver) send(str string) {
	if s.log != nil {
		io.WriteString(s.log, str)
	}
	s.Stats.BytesSent += int64(len(str))
	t0 := time.Now()
	_, err := io.WriteString(s.in, str)
	s.Stats.SendSeconds += time.Since(t0).Seconds()
	if err != nil {
		panic(engineAbort{kind: abortSolver, msg: "solver write: " + err.Error()})
	}
}

func (s *Solver) Push() {
	s.send("(push 1)\n")
	s.scopes = append(s.scopes, map[int32]bool{})
}

func (s *Solver) Pop() {
	s.send("(pop 1)\n")
	top := s.scopes[len(s.scopes)-1]
	s.scopes = s.scopes[:len(s.scopes)-1]
	for id := range top {
		delete(s.defined, id)
	}
}

// define makes sure t's definitions are known to the solver in the current
// scope.
func (s *Solver) define(t *Term) {
	var sb strings.Builder
	emitTermRec(&sb, t, &recMap{m: s.defined, top: s.scopes[len(s.scopes)-1]})
	if sb.Len() > 0 {
		s.send(sb.String())
	}
}

type recMap struct {
	m   map[int32]bool
	top map[int32]bool
}

func emitTermRec(sb *strings.Builder, t *Term, r *recMap) {
	if t.op == OpConst || r.m[t.id] {
		return
	}
	type fr struct {
		t *Term
		i int
	}
	stack := []fr{{t, 0}}
	for len(stack) > 0 {
		f := &stack[len(stack)-1]
		if f.t.op == OpConst || r.m[f.t.id] {
			stack = stack[:len(stack)-1]
			continue
		}
		kids := [3]*Term{f.t.a, f.t.b, f.t.c}
		pushed := false
		for f.i < 3 {
			k := kids[f.i]
			f.i++
			if k != nil && k.op != OpConst && !r.m[k.id] {
				stack = append(stack, fr{k, 0})
				pushed = true
				break
			}
		}
		if pushed {
			continue
		}
		n := f.t
		stack = stack[:len(stack)-1]
		if r.m[n.id] {
			continue
		}
		r.m[n.id] = true
		r.top[n.id] = true
		if n.op == OpVar {
			fmt.Fprintf(sb, "(declare-fun |%s| () %s)\n", n.name, sortOf(n.w))
		} else {
			fmt.Fprintf(sb, "(define-fun t%d () %s %s)\n", n.id, sortOf(n.w), n.body())
		}
	}
}

func (s *Solver) Assert(t *Term) {
	s.define(t)
	s.send("(assert " + t.ref() + ")\n")
}

func (s *Solver) readLine() string {
	line, err := s.out.ReadString('\n')
	if err != nil {
		panic(engineAbort{kind: abortSolver, msg: "solver read: " + err.Error()})
	}
	return strings.TrimSpace(line)
}

// Check runs (check-sat) under the current assertions plus extra.
func (s *Solver) Check(extra ...*Term) Verdict {
	t0 := time.Now()
	if len(extra) > 0 {
		s.Push()
		for _, e := range extra {
			s.Assert(e)
		}
	}
	s.send("(check-sat)\n")
	var v Verdict
	for {
		line := s.readLine()
		if line == "" {
			continue
		}
		switch {
		case line == "sat":
			v = Sat
			s.Stats.Sat++
		case line == "unsat":
			v = Unsat
			s.Stats.Unsat++
		case line == "unknown" || strings.HasPrefix(line, "timeout"):
			v = Unknown
			s.Stats.Unknown++
		case strings.HasPrefix(line, "(error"):
			// inconclusive; drain is not possible reliably -> treat as unknown
			v = Unknown
			s.Stats.Unknown++
			// the solver still prints sat/unsat afterwards in some cases; read it
			// only if it is an error about an earlier command. We conservatively
			// resynchronise with an echo.
			s.resync()
			if len(extra) > 0 {
				s.Pop()
			}
			s.Stats.Seconds += time.Since(t0).Seconds()
			return Unknown
		default:
			continue
		}
		break
	}
	if len(extra) > 0 && v != Sat {
		s.Pop()
	}
	// on Sat with extra, the caller may want the model: keep the scope until
	// ModelDone is called.
	if len(extra) > 0 && v == Sat {
		s.pendingPop = true
	}
	s.Stats.Seconds += time.Since(t0).Seconds()
	return v
}

func (s *Solver) resync() {
	s.send("(echo \"@@sync\")\n")
	for {
		line := s.readLine()
		if strings.Contains(line, "@@sync") {
			return
		}
	}
}

// ModelDone releases the scope kept after a Sat answer with extra assertions.
func (s *Solver) ModelDone() {
	if s.pendingPop {
		s.pendingPop = false
		s.Pop()
	}
}

// Model fetches values of the given variables after a Sat answer.
func (s *Solver) Model(vars []*Term) map[string]uint64 {
	m := map[string]uint64{}
	const chunk = 200
	for i := 0; i < len(vars); i += chunk {
		j := i + chunk
		if j > len(vars) {
			j = len(vars)
		}
		var sb strings.Builder
		sb.WriteString("(get-value (")
		n := 0
		for _, v := range vars[i:j] {
			if !s.defined[v.id] {
				continue
			}
			sb.WriteString(v.ref())
			sb.WriteByte(' ')
			n++
		}
		sb.WriteString("))\n(echo \"@@sync\")\n")
		if n == 0 {
			continue
		}
		s.send(sb.String())
		var all strings.Builder
		for {
			line := s.readLine()
			if strings.Contains(line, "@@sync") {
				break
			}
			all.WriteString(line)
			all.WriteByte(' ')
		}
		parseModel(all.String(), m)
	}
	return m
}

// parseModel parses "((|a| #x01) (|b| true) ...)".
func parseModel(str string, m map[string]uint64) {
	i := 0
	for i < len(str) {
		k := strings.IndexByte(str[i:], '|')
		if k < 0 {
			return
		}
		i += k + 1
		e := strings.IndexByte(str[i:], '|')
		if e < 0 {
			return
		}
		name := str[i : i+e]
		i += e + 1
		// value token
		for i < len(str) && str[i] == ' ' {
			i++
		}
		j := i
		depth := 0
		for j < len(str) {
			if str[j] == '(' {
				depth++
			}
			if str[j] == ')' {
				if depth == 0 {
					break
				}
				depth--
			}
			j++
		}
		tok := strings.TrimSpace(str[i:j])
		i = j
		var v uint64
		switch {
		case tok == "true":
			v = 1
		case tok == "false":
			v = 0
		case strings.HasPrefix(tok, "#x"):
			v, _ = strconv.ParseUint(tok[2:], 16, 64)
		case strings.HasPrefix(tok, "#b"):
			v, _ = strconv.ParseUint(tok[2:], 2, 64)
		case strings.HasPrefix(tok, "(_ bv"):
			f := strings.Fields(tok[5:])
			if len(f) > 0 {
				v, _ = strconv.ParseUint(f[0], 10, 64)
			}
		}
		m[name] = v
	}
}
