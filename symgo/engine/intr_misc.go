package engine

func init() {
	// CID/peer-id pretty printing (error messages, logs): opaque text
	reg("github.com/multiformats/go-multibase.Encode", func(fr *frame, a []value) value {
		return tuple{"<multibase>", iface{}}
	})
	reg("github.com/multiformats/go-multibase.MustNewEncoder", func(fr *frame, a []value) value {
		return fr.m.zeroResult(fr.fn.Signature)
	})
	reg("github.com/mr-tron/base58/base58.Encode", func(fr *frame, a []value) value { return "<base58>" })
	for _, n := range []string{"String", "ShortString", "Loggable"} {
		reg("(github.com/libp2p/go-libp2p/core/peer.ID)."+n, func(fr *frame, a []value) value {
			if fr.fn.Signature.Results().Len() == 1 && fr.fn.Signature.Results().At(0).Type().String() == "string" {
				return "<peer:" + fr.m.str(a[0]) + ">"
			}
			return fr.m.zeroResult(fr.fn.Signature)
		})
	}
}
