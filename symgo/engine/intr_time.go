package engine

import (
	"fmt"
	"go/types"
)

// Clock model: a time.Time is structure{wall=0, ext=nanoseconds (symbolic
// int64), loc=nil}; the zero Time has ext==0. time.Now returns a fresh
// instant constrained to be >= the previous reading on the path and within
// (0, 2^60) so that Add/Sub never saturate. Timers fire when the scheduler
// picks their thread: "any time after they were armed".

func (m *Machine) mkTime(ns *Term) value {
	return structure{m.ts.BV(64, 0), ns, (*value)(nil)}
}

func (m *Machine) timeNs(v value) *Term {
	switch t := v.(type) {
	case structure:
		return t[1].(*Term)
	case *value:
		if t == nil {
			m.panicRuntime("invalid memory address or nil pointer dereference")
		}
		return (*t).(structure)[1].(*Term)
	}
	panic(fmt.Sprintf("timeNs: %T", v))
}

func (m *Machine) now() *Term {
	ts := m.ts
	m.nclock++
	t := m.freshVar(64, "clock")
	lo := m.clock
	if lo == nil {
		lo = ts.BV(64, 1)
	}
	m.assume(ts.BAnd(ts.Sle(lo, t), ts.Slt(t, ts.BV(64, 1<<60))))
	m.clock = t
	return t
}

type timerState struct {
	stopped bool
	fired   bool
	ch      *Chan
}

func init() {
	reg("time.Now", func(fr *frame, a []value) value { return fr.m.mkTime(fr.m.now()) })
	reg("time.Since", func(fr *frame, a []value) value {
		return fr.m.ts.Sub(fr.m.now(), fr.m.timeNs(a[0]))
	})
	reg("time.Until", func(fr *frame, a []value) value {
		return fr.m.ts.Sub(fr.m.timeNs(a[0]), fr.m.now())
	})
	reg("(time.Time).Before", func(fr *frame, a []value) value {
		return fr.m.ts.Slt(fr.m.timeNs(a[0]), fr.m.timeNs(a[1]))
	})
	reg("(time.Time).After", func(fr *frame, a []value) value {
		return fr.m.ts.Slt(fr.m.timeNs(a[1]), fr.m.timeNs(a[0]))
	})
	reg("(time.Time).Equal", func(fr *frame, a []value) value {
		return fr.m.ts.Eq(fr.m.timeNs(a[0]), fr.m.timeNs(a[1]))
	})
	reg("(time.Time).Compare", func(fr *frame, a []value) value {
		m := fr.m
		x, y := m.timeNs(a[0]), m.timeNs(a[1])
		return m.ts.Ite(m.ts.Slt(x, y), m.ts.BV(64, ^uint64(0)), m.ts.Ite(m.ts.Eq(x, y), m.ts.BV(64, 0), m.ts.BV(64, 1)))
	})
	reg("(time.Time).IsZero", func(fr *frame, a []value) value {
		return fr.m.ts.Eq(fr.m.timeNs(a[0]), fr.m.ts.BV(64, 0))
	})
	reg("(time.Time).Sub", func(fr *frame, a []value) value {
		return fr.m.ts.Sub(fr.m.timeNs(a[0]), fr.m.timeNs(a[1]))
	})
	reg("(time.Time).Add", func(fr *frame, a []value) value {
		return fr.m.mkTime(fr.m.ts.Add(fr.m.timeNs(a[0]), a[1].(*Term)))
	})
	reg("(time.Time).UnixNano", func(fr *frame, a []value) value { return fr.m.timeNs(a[0]) })
	reg("(time.Time).UTC", func(fr *frame, a []value) value { return a[0] })
	reg("(time.Time).Local", func(fr *frame, a []value) value { return a[0] })
	reg("(time.Time).Round", func(fr *frame, a []value) value { return a[0] })
	reg("(time.Time).String", func(fr *frame, a []value) value { return "<time>" })
	reg("(time.Time).Format", func(fr *frame, a []value) value { return "<time>" })
	reg("(time.Duration).String", func(fr *frame, a []value) value { return "<duration>" })
	reg("(time.Duration).Seconds", func(fr *frame, a []value) value {
		t := a[0].(*Term)
		if t.IsConst() {
			return float64(t.Int()) / 1e9
		}
		return float64(0)
	})
	reg("(time.Duration).Milliseconds", func(fr *frame, a []value) value {
		t := a[0].(*Term)
		if t.IsConst() {
			return fr.m.mkInt(t.Int() / 1e6)
		}
		return fr.m.ts.SDiv(t, fr.m.ts.BV(64, 1000000))
	})
	reg("time.Unix", func(fr *frame, a []value) value {
		m := fr.m
		sec, nsec := a[0].(*Term), a[1].(*Term)
		return m.mkTime(m.ts.Add(m.ts.Mul(sec, m.ts.BV(64, 1000000000)), nsec))
	})
	reg("time.UnixMilli", func(fr *frame, a []value) value {
		m := fr.m
		return m.mkTime(m.ts.Mul(a[0].(*Term), m.ts.BV(64, 1000000)))
	})
	reg("(time.Time).Unix", func(fr *frame, a []value) value {
		m := fr.m
		return m.ts.SDiv(m.timeNs(a[0]), m.ts.BV(64, 1000000000))
	})
	reg("time.Sleep", func(fr *frame, a []value) value { fr.m.yield("sleep"); return nil })

	timerOf := func(m *Machine, p value) *timerState {
		st, _ := m.side[p].(*timerState)
		if st == nil {
			m.unsupported("operation on a timer the engine did not create")
		}
		return st
	}
	newTimerObj := func(m *Machine, typeName string) (*value, *timerState) {
		T := m.typeOf("time", typeName)
		var c value = m.zero(T)
		p := &c
		st := &timerState{}
		m.side[p] = st
		return p, st
	}
	reg("time.AfterFunc", func(fr *frame, a []value) value {
		m := fr.m
		p, st := newTimerObj(m, "Timer")
		f := a[1]
		due := m.ts.Add(m.now(), a[0].(*Term))
		t := m.spawn(fr, nil, &nativeFn{name: "timer", f: func(m *Machine, caller *frame, _ []value) value {
			if st.stopped {
				return nil
			}
			// the callback runs at some instant not before its due time
			m.assume(m.ts.Sle(due, m.now()))
			st.fired = true
			m.call(caller, nil, f, nil)
			return nil
		}}, nil)
		t.daemo = true
		t.name = "time.AfterFunc"
		return p
	})
	mkChanTimer := func(fr *frame, typeName string, repeat int, d *Term) (*value, *timerState) {
		m := fr.m
		p, st := newTimerObj(m, typeName)
		ch := m.newChan(1, m.typeOf("time", "Time"))
		st.ch = ch
		// field C (first field of Timer/Ticker) holds the channel
		(*p).(structure)[0] = ch
		var due *Term
		if d != nil {
			due = m.ts.Add(m.now(), d)
		}
		t := m.spawn(fr, nil, &nativeFn{name: "timer", f: func(m *Machine, caller *frame, _ []value) value {
			for i := 0; i < repeat; i++ {
				if st.stopped {
					return nil
				}
				if due != nil && i == 0 {
					m.assume(m.ts.Sle(due, m.now()))
				}
				st.fired = true
				m.trySend(ch, m.mkTime(m.now()))
				if i+1 < repeat {
					m.yield("tick")
				}
			}
			return nil
		}}, nil)
		t.daemo = true
		t.name = "time." + typeName
		return p, st
	}
	reg("time.NewTimer", func(fr *frame, a []value) value {
		p, _ := mkChanTimer(fr, "Timer", 1, a[0].(*Term))
		return p
	})
	reg("time.After", func(fr *frame, a []value) value {
		_, st := mkChanTimer(fr, "Timer", 1, a[0].(*Term))
		return st.ch
	})
	reg("time.NewTicker", func(fr *frame, a []value) value {
		p, _ := mkChanTimer(fr, "Ticker", 2, a[0].(*Term))
		return p
	})
	reg("time.Tick", func(fr *frame, a []value) value {
		_, st := mkChanTimer(fr, "Ticker", 2, a[0].(*Term))
		return st.ch
	})
	reg("(*time.Timer).Stop", func(fr *frame, a []value) value {
		m := fr.m
		st := timerOf(m, a[0])
		was := !st.stopped && !st.fired
		st.stopped = true
		return m.ts.Bool(was)
	})
	reg("(*time.Timer).Reset", func(fr *frame, a []value) value {
		m := fr.m
		st := timerOf(m, a[0])
		was := !st.stopped && !st.fired
		if st.stopped || st.fired {
			m.unsupported("time.Timer.Reset after stop/fire")
		}
		return m.ts.Bool(was)
	})
	reg("(*time.Ticker).Stop", func(fr *frame, a []value) value {
		timerOf(fr.m, a[0]).stopped = true
		return nil
	})
	reg("(*time.Ticker).Reset", func(fr *frame, a []value) value { return nil })
	_ = types.Typ
}
