package engine

import (
	"sort"
	"strconv"
	"strings"
	"sync"
)

// Cross-path query cache: paths of one harness repeat the same small
// feasibility queries (same set of path-condition conjuncts, same extra
// condition) thousands of times. Formulas are keyed by their fully expanded
// text, so a hit is the very same SMT problem; only sat/unsat are cached.

type queryCache struct {
	m    sync.Map
	hits int64
	mu   sync.Mutex
}

const termStringBudget = 3000

// termText returns the expanded s-expression of t, or "" if it is too big.
func (m *Machine) termText(t *Term) string {
	if s, ok := m.textMemo[t.id]; ok {
		return s
	}
	budget := termStringBudget
	var sb strings.Builder
	if !writeTermText(&sb, t, &budget) {
		m.textMemo[t.id] = ""
		return ""
	}
	s := sb.String()
	m.textMemo[t.id] = s
	return s
}

func writeTermText(sb *strings.Builder, t *Term, budget *int) bool {
	*budget--
	if *budget <= 0 {
		return false
	}
	switch t.op {
	case OpConst:
		sb.WriteString(t.ref())
		return true
	case OpVar:
		sb.WriteString(t.name)
		sb.WriteByte(':')
		sb.WriteString(strconv.Itoa(int(t.w)))
		return true
	}
	sb.WriteByte('(')
	sb.WriteString(opNames[t.op])
	if t.op == OpExtract || t.op == OpZExt || t.op == OpSExt {
		sb.WriteByte('_')
		sb.WriteString(strconv.FormatUint(t.val, 10))
		sb.WriteByte('_')
		sb.WriteString(strconv.Itoa(int(t.w)))
	}
	for _, k := range [3]*Term{t.a, t.b, t.c} {
		if k == nil {
			continue
		}
		sb.WriteByte(' ')
		if !writeTermText(sb, k, budget) {
			return false
		}
	}
	sb.WriteByte(')')
	return true
}

// pushPC records c as part of the path condition.
func (m *Machine) pushPC(c *Term) {
	m.pc = append(m.pc, c)
	if m.pcUncacheable {
		return
	}
	s := m.termText(c)
	if s == "" || len(m.pcTexts) > 400 {
		m.pcUncacheable = true
		return
	}
	m.pcTexts = append(m.pcTexts, s)
	m.pcKeyValid = false
}

func (m *Machine) pcKey() (string, bool) {
	if m.pcUncacheable {
		return "", false
	}
	if !m.pcKeyValid {
		ts := append([]string(nil), m.pcTexts...)
		sort.Strings(ts)
		// unique
		out := ts[:0]
		for i, s := range ts {
			if i == 0 || s != ts[i-1] {
				out = append(out, s)
			}
		}
		m.pcKeyStr = strings.Join(out, "&")
		m.pcKeyValid = true
	}
	return m.pcKeyStr, true
}

func (m *Machine) cacheLookup(extra *Term) (string, Verdict, bool) {
	qc := m.P.qcache
	if qc == nil || m.cfg.ReplayVals != nil {
		return "", 0, false
	}
	pk, ok := m.pcKey()
	if !ok {
		return "", 0, false
	}
	es := m.termText(extra)
	if es == "" {
		return "", 0, false
	}
	key := pk + "|" + es
	if v, ok := qc.m.Load(key); ok {
		m.cacheHits++
		return key, v.(Verdict), true
	}
	return key, 0, false
}

func (m *Machine) cacheStore(key string, v Verdict) {
	if key == "" || v == Unknown || m.P.qcache == nil {
		return
	}
	m.P.qcache.m.Store(key, v)
}
