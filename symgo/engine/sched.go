package engine

// Cooperative scheduler: every target goroutine is a host goroutine, but only
// the holder of the baton runs. Threads switch only at synchronisation
// operations; which enabled thread runs next is a decision explored like a
// branch. Preemptive switches (leaving a thread that could continue) are
// bounded by cfg.Preemptions; switches forced by blocking are free.

import (
	"fmt"
	"go/types"
	"strings"

	"golang.org/x/tools/go/ssa"
)

type thread struct {
	id    int
	name  string
	wake  chan struct{}
	cond  func() bool // nil = runnable
	what  string
	done  bool
	top   *frame
	daemo bool // environment thread: never counts for deadlock detection
}

func (m *Machine) enabled() []*thread {
	var en []*thread
	for _, t := range m.threads {
		if t.done {
			continue
		}
		if t.cond == nil || t.cond() {
			en = append(en, t)
		}
	}
	return en
}

// switchTo hands the baton to t and parks the current thread until it is
// woken again.
func (m *Machine) switchTo(t *thread) {
	cur := m.cur
	if t == cur {
		return
	}
	m.cur = t
	m.switches++
	t.wake <- struct{}{}
	<-cur.wake
	if m.dead {
		panic(engineAbort{abortKilled, ""})
	}
}

// block parks the current thread until cond holds.
func (m *Machine) block(cond func() bool, what string) {
	cur := m.cur
	for !cond() {
		cur.cond, cur.what = cond, what
		en := m.enabled()
		if len(en) == 0 {
			m.deadlock()
		}
		m.switchTo(m.pick(en, "sched-block"))
	}
	cur.cond, cur.what = nil, ""
}

// pick chooses the next thread among the enabled ones (delay-bounded
// scheduling): the default is the next enabled thread after the current one
// in round-robin order; choosing any other thread costs one "delay" and the
// number of delays per path is bounded by cfg.Preemptions (+ harness
// override). With the budget exhausted the schedule is deterministic.
func (m *Machine) pick(en []*thread, kind string) *thread {
	if len(en) == 1 {
		return en[0]
	}
	// default: first enabled thread with id > cur.id, else the lowest id
	def := 0
	for i, t := range en {
		if t.id > m.cur.id {
			def = i
			break
		}
	}
	if m.cfg.FullSchedules {
		return en[m.choose(len(en), kind)]
	}
	if m.preemptions >= m.cfg.Preemptions+m.preemptBound {
		return en[def]
	}
	k := m.choose(len(en), kind)
	if k != 0 {
		m.preemptions++
	}
	return en[(def+k)%len(en)]
}

// yield is a preemption point before a visible operation.
func (m *Machine) yield(what string) {
	if len(m.threads) <= 1 || m.noPreempt > 0 {
		return
	}
	if m.preemptions >= m.cfg.Preemptions+m.preemptBound {
		return
	}
	// Preemption points are the synchronisation operations performed by the
	// repository's own code; operations inside library code loaded from source
	// (context, sync/atomic wrappers, ...) are not split.
	if !m.cfg.AllYields && !m.inRepoCode() {
		return
	}
	cur := m.cur
	var others []*thread
	for _, t := range m.enabled() {
		if t != cur {
			others = append(others, t)
		}
	}
	if len(others) == 0 {
		return
	}
	k := m.choose(len(others)+1, "sched-preempt:"+what)
	if k == 0 {
		return
	}
	m.preemptions++
	m.switchTo(others[k-1])
}

func (m *Machine) deadlock() {
	var sb strings.Builder
	for _, t := range m.threads {
		if !t.done {
			fmt.Fprintf(&sb, "[thread %d %s blocked on %s] ", t.id, t.name, t.what)
		}
	}
	panic(engineAbort{abortDeadlock, sb.String()})
}

// spawn starts a new target goroutine (parked until scheduled).
func (m *Machine) spawn(fr *frame, site ssa.Instruction, fn value, args []value) *thread {
	live := 0
	for _, t := range m.threads {
		if !t.done {
			live++
		}
	}
	if live >= m.cfg.MaxThreads {
		panic(engineAbort{abortBudget, fmt.Sprintf("thread bound %d exceeded", m.cfg.MaxThreads)})
	}
	t := &thread{id: len(m.threads), wake: make(chan struct{}, 1)}
	switch f := fn.(type) {
	case *ssa.Function:
		t.name = f.String()
	case *closure:
		t.name = f.Fn.String()
	}
	m.threads = append(m.threads, t)
	m.wg.Add(1)
	go func() {
		defer m.wg.Done()
		<-t.wake
		if m.dead {
			return
		}
		m.runThread(t, func() { m.call(nil, site, fn, args) })
	}()
	m.yield("go")
	return t
}

// runThread runs body as thread t and, when it ends, passes the baton on.
func (m *Machine) runThread(t *thread, body func()) {
	defer func() {
		r := recover()
		t.done = true
		if r != nil {
			switch p := r.(type) {
			case engineAbort:
				if p.kind == abortKilled {
					return
				}
				m.finish(pathResult{abort: &p})
				return
			case targetPanic:
				m.finish(pathResult{panicked: true, panicVal: toString(p.v) + m.lastPanicStack, panicThread: t.id})
				return
			default:
				m.finish(pathResult{abort: &engineAbort{abortUnsupported, fmt.Sprintf("engine fault: %v", r)}})
				return
			}
		}
		if t.id == 0 {
			m.finish(pathResult{})
			return
		}
		// hand over
		en := m.enabled()
		if len(en) == 0 {
			var sb strings.Builder
			for _, t := range m.threads {
				if !t.done {
					fmt.Fprintf(&sb, "[thread %d %s blocked on %s] ", t.id, t.name, t.what)
				}
			}
			m.finish(pathResult{abort: &engineAbort{abortDeadlock, sb.String()}})
			return
		}
		// choosing inside a deferred func: a decision abort must not escape
		func() {
			defer func() {
				if r := recover(); r != nil {
					if p, ok := r.(engineAbort); ok && p.kind != abortKilled {
						m.finish(pathResult{abort: &p})
					}
				}
			}()
			next := m.pick(en, "sched-exit")
			m.cur = next
			next.wake <- struct{}{}
		}()
	}()
	body()
}

// finish ends the path; first caller wins.
func (m *Machine) finish(r pathResult) {
	select {
	case m.result <- r:
	default:
	}
}

// ---------------------------------------------------------------------------
// Channels (Go runtime algorithm with sudog-like waiters)

type Chan struct {
	buf    []value
	cap    int
	closed bool
	recvq  []*waiter
	sendq  []*waiter
	elemT  types.Type
	id     int
}

type waitGrp struct {
	fired   bool
	caseIdx int
	val     value
	ok      bool
	closed  bool // woken by close (send side: panic)
}

type waiter struct {
	grp     *waitGrp
	caseIdx int
	val     value // send side
}

func (c *Chan) length() int {
	if c == nil {
		return 0
	}
	return len(c.buf)
}

func (m *Machine) newChan(n int, et types.Type) *Chan {
	m.nchans++
	return &Chan{cap: n, elemT: et, id: m.nchans}
}

func firstLive(q *[]*waiter) *waiter {
	for len(*q) > 0 {
		w := (*q)[0]
		if w.grp.fired {
			*q = (*q)[1:]
			continue
		}
		return w
	}
	return nil
}

func (c *Chan) canSend() bool {
	return c.closed || firstLive(&c.recvq) != nil || len(c.buf) < c.cap
}

func (c *Chan) canRecv() bool {
	return len(c.buf) > 0 || firstLive(&c.sendq) != nil || c.closed
}

// trySend performs a non-blocking send; reports success.
func (m *Machine) trySend(c *Chan, v value) bool {
	if c.closed {
		m.panicRuntimePlain("send on closed channel")
	}
	if w := firstLive(&c.recvq); w != nil {
		c.recvq = c.recvq[1:]
		w.grp.fired, w.grp.caseIdx, w.grp.val, w.grp.ok = true, w.caseIdx, v, true
		return true
	}
	if len(c.buf) < c.cap {
		c.buf = append(c.buf, v)
		return true
	}
	return false
}

// tryRecv performs a non-blocking receive.
func (m *Machine) tryRecv(c *Chan) (v value, ok bool, done bool) {
	if len(c.buf) > 0 {
		v = c.buf[0]
		c.buf = c.buf[1:]
		if w := firstLive(&c.sendq); w != nil {
			c.sendq = c.sendq[1:]
			c.buf = append(c.buf, w.val)
			w.grp.fired, w.grp.caseIdx = true, w.caseIdx
		}
		return v, true, true
	}
	if w := firstLive(&c.sendq); w != nil {
		c.sendq = c.sendq[1:]
		w.grp.fired, w.grp.caseIdx = true, w.caseIdx
		return w.val, true, true
	}
	if c.closed {
		return m.zero(c.elemT), false, true
	}
	return nil, false, false
}

func (m *Machine) panicRuntimePlain(s string) {
	panic(targetPanic{iface{t: m.runtimeErrorT, v: s}})
}

func (m *Machine) chanSend(c *Chan, v value) {
	m.yield("send")
	if c == nil {
		m.block(func() bool { return false }, "send on nil channel")
	}
	v = copyVal(c.elemT, v)
	if m.trySend(c, v) {
		return
	}
	g := &waitGrp{}
	c.sendq = append(c.sendq, &waiter{grp: g, val: v})
	m.block(func() bool { return g.fired }, fmt.Sprintf("chan send #%d", c.id))
	if g.closed {
		m.panicRuntimePlain("send on closed channel")
	}
}

func (m *Machine) chanRecv(c *Chan, et types.Type, commaOk bool) value {
	m.yield("recv")
	if c == nil {
		m.block(func() bool { return false }, "receive from nil channel")
	}
	v, ok, done := m.tryRecv(c)
	if !done {
		g := &waitGrp{}
		c.recvq = append(c.recvq, &waiter{grp: g})
		m.block(func() bool { return g.fired }, fmt.Sprintf("chan receive #%d", c.id))
		v, ok = g.val, g.ok
		if !ok {
			v = m.zero(et)
		}
	}
	if commaOk {
		return tuple{v, m.ts.Bool(ok)}
	}
	return v
}

func (m *Machine) chanClose(c *Chan) {
	m.yield("close")
	if c == nil {
		m.panicRuntimePlain("close of nil channel")
	}
	if c.closed {
		m.panicRuntimePlain("close of closed channel")
	}
	c.closed = true
	for _, w := range c.recvq {
		if !w.grp.fired {
			w.grp.fired, w.grp.caseIdx, w.grp.ok = true, w.caseIdx, false
		}
	}
	c.recvq = nil
	for _, w := range c.sendq {
		if !w.grp.fired {
			w.grp.fired, w.grp.caseIdx, w.grp.closed = true, w.caseIdx, true
		}
	}
	c.sendq = nil
}

func (m *Machine) selectOp(fr *frame, instr *ssa.Select) value {
	m.yield("select")
	n := len(instr.States)
	chans := make([]*Chan, n)
	vals := make([]value, n)
	for i, st := range instr.States {
		chans[i], _ = fr.get(st.Chan).(*Chan)
		if st.Send != nil {
			vals[i] = fr.get(st.Send)
		}
	}
	isSend := func(i int) bool { return instr.States[i].Dir == types.SendOnly }
	var ready []int
	for i := range chans {
		c := chans[i]
		if c == nil {
			continue
		}
		if isSend(i) {
			if c.canSend() {
				ready = append(ready, i)
			}
		} else if c.canRecv() {
			ready = append(ready, i)
		}
	}
	chosen := -1
	var recvVal value
	recvOk := false
	if len(ready) > 0 {
		k := 0
		if len(ready) > 1 {
			k = m.choose(len(ready), "select")
		}
		chosen = ready[k]
		c := chans[chosen]
		if isSend(chosen) {
			if !m.trySend(c, copyVal(c.elemT, vals[chosen])) {
				panic("select: send not possible after canSend")
			}
		} else {
			recvVal, recvOk, _ = m.tryRecv(c)
		}
	} else if instr.Blocking {
		g := &waitGrp{}
		for i, c := range chans {
			if c == nil {
				continue
			}
			if isSend(i) {
				c.sendq = append(c.sendq, &waiter{grp: g, caseIdx: i, val: copyVal(c.elemT, vals[i])})
			} else {
				c.recvq = append(c.recvq, &waiter{grp: g, caseIdx: i})
			}
		}
		m.block(func() bool { return g.fired }, "select")
		chosen = g.caseIdx
		if isSend(chosen) {
			if g.closed {
				m.panicRuntimePlain("send on closed channel")
			}
		} else {
			recvVal, recvOk = g.val, g.ok
		}
	}
	r := tuple{m.mkInt(int64(chosen)), m.ts.Bool(recvOk)}
	for i, st := range instr.States {
		if st.Dir == types.RecvOnly {
			var v value
			if i == chosen && recvOk {
				v = recvVal
			} else {
				v = m.zero(st.Chan.Type().Underlying().(*types.Chan).Elem())
			}
			r = append(r, v)
		}
	}
	return r
}

// ---------------------------------------------------------------------------
// Mutexes (side tables keyed by the address of the mutex struct)

type mutexState struct {
	locked   bool
	readers  int
	wwaiting int
	owner    int
	class    string
}

func (m *Machine) mutex(p *value) *mutexState {
	s := m.mutexes[p]
	if s == nil {
		s = &mutexState{}
		m.mutexes[p] = s
	}
	return s
}

func (m *Machine) mutexLock(p *value, what string) {
	m.yield("lock")
	s := m.mutex(p)
	if s.locked || s.readers > 0 {
		s.wwaiting++
		m.block(func() bool { return !s.locked && s.readers == 0 }, "Lock "+what)
		s.wwaiting--
	}
	s.locked = true
	s.owner = m.cur.id
	m.lockEvent(p, what, true)
}

func (m *Machine) mutexTryLock(p *value) bool {
	m.yield("trylock")
	s := m.mutex(p)
	if s.locked || s.readers > 0 {
		return false
	}
	s.locked = true
	s.owner = m.cur.id
	return true
}

func (m *Machine) mutexUnlock(p *value, what string) {
	s := m.mutex(p)
	if !s.locked {
		panic(targetPanic{iface{t: m.runtimeErrorT, v: "fatal error: sync: unlock of unlocked mutex"}})
	}
	s.locked = false
	m.lockEvent(p, what, false)
	m.yield("unlock")
}

func (m *Machine) mutexRLock(p *value, what string) {
	m.yield("rlock")
	s := m.mutex(p)
	if s.locked || s.wwaiting > 0 {
		m.block(func() bool { return !s.locked && s.wwaiting == 0 }, "RLock "+what)
	}
	s.readers++
	m.lockEvent(p, what, true)
}

func (m *Machine) mutexTryRLock(p *value) bool {
	s := m.mutex(p)
	if s.locked || s.wwaiting > 0 {
		return false
	}
	s.readers++
	return true
}

func (m *Machine) mutexRUnlock(p *value, what string) {
	s := m.mutex(p)
	if s.readers <= 0 {
		panic(targetPanic{iface{t: m.runtimeErrorT, v: "fatal error: sync: RUnlock of unlocked RWMutex"}})
	}
	s.readers--
	m.lockEvent(p, what, false)
	m.yield("runlock")
}

// lockEvent records acquisition order for lock-graph queries.
func (m *Machine) lockEvent(p *value, what string, acquire bool) {
	if m.lockLog == nil {
		return
	}
	m.lockLog(m.cur.id, p, what, acquire)
}
