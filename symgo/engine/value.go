package engine

// Values (boxed, as in x/tools go/ssa/interp, adapted):
//
//  *Term            every integer kind and bool (constant or symbolic)
//  float32/float64  concrete only
//  string           concrete string
//  *SymString       string with symbolic bytes (concrete length)
//  *Map             maps (insertion ordered, symbolic keys allowed)
//  *Chan            channels (scheduler-owned)
//  []value          slices
//  iface            interfaces
//  structure        structs
//  array            arrays
//  *value           pointers
//  *elemRef         pointer to slice element selected by a symbolic index
//  *ssa.Function, *ssa.Builtin, *closure   functions
//  tuple, iter, bad, rtype, **deferred
//  *opaque          result of an unmodelled external (lenient mode only)

import (
	"bytes"
	"fmt"
	"go/types"
	"strings"

	"golang.org/x/tools/go/ssa"
)

type value any

type tuple []value

type array []value

type iface struct {
	t types.Type // never an "untyped" type
	v value
}

type structure []value

type iter interface {
	next() tuple
}

type closure struct {
	Fn  *ssa.Function
	Env []value
}

type bad struct{}

type rtype struct {
	t types.Type
}

// SymString is a string whose bytes are terms (bv8); length is concrete.
type SymString struct {
	b []*Term
}

// opaque stands for a value produced by an unmodelled external during
// lenient (init-time) execution. Using it in a way that matters aborts.
type opaque struct {
	t    types.Type
	from string
	noop bool // produced by a declared no-op package (logging, metrics)
}

var errorType = types.Universe.Lookup("error").Type()

// elemRef is the address of base[idx] for a symbolic idx already known to be
// in range.
type elemRef struct {
	base []value
	idx  *Term
	elem types.Type
}

func deref(t types.Type) types.Type {
	if p, ok := t.Underlying().(*types.Pointer); ok {
		return p.Elem()
	}
	if p, ok := coreType(t).(*types.Pointer); ok {
		return p.Elem()
	}
	panic(fmt.Sprintf("deref of non-pointer %s", t))
}

func coreType(t types.Type) types.Type {
	return t.Underlying()
}

// intInfo returns (width, signed) for an integer/bool basic type.
func intInfo(t types.Type) (uint8, bool, bool) {
	b, ok := t.Underlying().(*types.Basic)
	if !ok {
		return 0, false, false
	}
	switch b.Kind() {
	case types.Bool, types.UntypedBool:
		return 0, false, true
	case types.Int, types.Int64, types.UntypedInt:
		return 64, true, true
	case types.Int8:
		return 8, true, true
	case types.Int16:
		return 16, true, true
	case types.Int32, types.UntypedRune:
		return 32, true, true
	case types.Uint, types.Uint64, types.Uintptr:
		return 64, false, true
	case types.Uint8:
		return 8, false, true
	case types.Uint16:
		return 16, false, true
	case types.Uint32:
		return 32, false, true
	}
	return 0, false, false
}

// zero returns a new "zero" value of the specified type.
func (m *Machine) zero(t types.Type) value {
	switch t := t.(type) {
	case *types.Basic:
		if t.Kind() == types.UntypedNil {
			panic("untyped nil has no zero value")
		}
		if t.Info()&types.IsUntyped != 0 {
			t = types.Default(t).(*types.Basic)
		}
		if w, _, ok := intInfo(t); ok {
			if w == 0 {
				return m.ts.False
			}
			return m.ts.BV(w, 0)
		}
		switch t.Kind() {
		case types.Float32:
			return float32(0)
		case types.Float64:
			return float64(0)
		case types.Complex64:
			return complex64(0)
		case types.Complex128:
			return complex128(0)
		case types.String:
			return ""
		case types.UnsafePointer:
			return (*value)(nil)
		default:
			panic(fmt.Sprint("zero for unexpected type:", t))
		}
	case *types.Pointer:
		return (*value)(nil)
	case *types.Array:
		a := make(array, t.Len())
		for i := range a {
			a[i] = m.zero(t.Elem())
		}
		return a
	case *types.Named:
		return m.zero(t.Underlying())
	case *types.Alias:
		return m.zero(types.Unalias(t))
	case *types.Interface:
		return iface{}
	case *types.Slice:
		return []value(nil)
	case *types.Struct:
		s := make(structure, t.NumFields())
		for i := range s {
			s[i] = m.zero(t.Field(i).Type())
		}
		return s
	case *types.Tuple:
		if t.Len() == 1 {
			return m.zero(t.At(0).Type())
		}
		s := make(tuple, t.Len())
		for i := range s {
			s[i] = m.zero(t.At(i).Type())
		}
		return s
	case *types.Chan:
		return (*Chan)(nil)
	case *types.Map:
		return (*Map)(nil)
	case *types.Signature:
		return (*ssa.Function)(nil)
	case *types.TypeParam:
		panic("zero of type parameter " + t.String())
	}
	panic(fmt.Sprint("zero: unexpected ", t))
}

// load returns the value of type T in *addr (a copy for aggregates).
func load(T types.Type, addr *value) value {
	switch T := T.Underlying().(type) {
	case *types.Struct:
		v := (*addr).(structure)
		a := make(structure, len(v))
		for i := range a {
			a[i] = load(T.Field(i).Type(), &v[i])
		}
		return a
	case *types.Array:
		v := (*addr).(array)
		a := make(array, len(v))
		et := T.Elem()
		if isScalar(et) {
			copy(a, v)
			return a
		}
		for i := range a {
			a[i] = load(et, &v[i])
		}
		return a
	default:
		return *addr
	}
}

func isScalar(t types.Type) bool {
	switch t.Underlying().(type) {
	case *types.Struct, *types.Array:
		return false
	}
	return true
}

// store stores value v of type T into *addr.
func store(T types.Type, addr *value, v value) {
	switch T := T.Underlying().(type) {
	case *types.Struct:
		lhs := (*addr).(structure)
		rhs := v.(structure)
		for i := range lhs {
			store(T.Field(i).Type(), &lhs[i], rhs[i])
		}
	case *types.Array:
		lhs := (*addr).(array)
		rhs := v.(array)
		et := T.Elem()
		if isScalar(et) {
			copy(lhs, rhs)
			return
		}
		for i := range lhs {
			store(et, &lhs[i], rhs[i])
		}
	default:
		*addr = v
	}
}

// copyVal returns a deep copy of aggregates (value semantics).
func copyVal(T types.Type, v value) value {
	switch T.Underlying().(type) {
	case *types.Struct, *types.Array:
		return load(T, &v)
	}
	return v
}

// nil-tolerant variant of types.Identical.
func sameType(x, y types.Type) bool {
	if x == nil {
		return y == nil
	}
	return y != nil && types.Identical(x, y)
}

// equals returns a Bool term: x == y under Go's equality for type t.
func (m *Machine) equals(t types.Type, x, y value) *Term {
	ts := m.ts
	switch x := x.(type) {
	case *Term:
		yt, ok := y.(*Term)
		if !ok {
			m.unsupported(fmt.Sprintf("equals: %T vs %T", x, y))
		}
		return ts.Eq(x, yt)
	case float32:
		return ts.Bool(x == y.(float32))
	case float64:
		return ts.Bool(x == y.(float64))
	case complex64:
		return ts.Bool(x == y.(complex64))
	case complex128:
		return ts.Bool(x == y.(complex128))
	case string:
		switch y := y.(type) {
		case string:
			return ts.Bool(x == y)
		case *SymString:
			return m.symStrEq(m.toSym(x), y)
		}
	case *SymString:
		return m.symStrEq(x, m.toSym(y))
	case *value:
		return ts.Bool(x == y.(*value))
	case *Chan:
		return ts.Bool(x == y.(*Chan))
	case *Map:
		return ts.Bool(x == y.(*Map))
	case structure:
		y := y.(structure)
		tStruct := t.Underlying().(*types.Struct)
		r := ts.True
		for i, n := 0, tStruct.NumFields(); i < n; i++ {
			if f := tStruct.Field(i); f.Name() != "_" {
				r = ts.BAnd(r, m.equals(f.Type(), x[i], y[i]))
				if r.IsFalse() {
					return r
				}
			}
		}
		return r
	case array:
		y := y.(array)
		tElt := t.Underlying().(*types.Array).Elem()
		r := ts.True
		for i, xi := range x {
			r = ts.BAnd(r, m.equals(tElt, xi, y[i]))
			if r.IsFalse() {
				return r
			}
		}
		return r
	case iface:
		y := y.(iface)
		if !sameType(x.t, y.t) {
			return ts.False
		}
		if x.t == nil {
			return ts.True
		}
		if !types.Comparable(x.t) {
			panic(targetPanic{m.runtimeError("comparing uncomparable type " + x.t.String())})
		}
		return m.equals(x.t, x.v, y.v)
	case rtype:
		return ts.Bool(types.Identical(x.t, y.(rtype).t))
	case *ssa.Function, *closure, *ssa.Builtin:
		return ts.Bool(x == y)
	case *opaque:
		return ts.Bool(x == y)
	case *elemRef:
		m.unsupported("comparison of symbolic element pointer")
	}
	panic(fmt.Sprintf("comparing uncomparable type %s (%T)", t, x))
}

func (m *Machine) toSym(v value) *SymString {
	switch v := v.(type) {
	case *SymString:
		return v
	case string:
		b := make([]*Term, len(v))
		for i := 0; i < len(v); i++ {
			b[i] = m.ts.BV(8, uint64(v[i]))
		}
		return &SymString{b}
	}
	panic(fmt.Sprintf("toSym: %T", v))
}

func (m *Machine) symStrEq(a, b *SymString) *Term {
	if len(a.b) != len(b.b) {
		return m.ts.False
	}
	r := m.ts.True
	for i := range a.b {
		r = m.ts.BAnd(r, m.ts.Eq(a.b[i], b.b[i]))
		if r.IsFalse() {
			return r
		}
	}
	return r
}

// normStr turns a SymString with all-constant bytes back into a string.
func normStr(s *SymString) value {
	for _, t := range s.b {
		if !t.IsConst() {
			return s
		}
	}
	b := make([]byte, len(s.b))
	for i, t := range s.b {
		b[i] = byte(t.val)
	}
	return string(b)
}

func strLen(v value) int {
	switch v := v.(type) {
	case string:
		return len(v)
	case *SymString:
		return len(v.b)
	}
	panic(fmt.Sprintf("strLen: %T", v))
}

func writeValue(buf *bytes.Buffer, v value, depth int) {
	if depth > 6 {
		buf.WriteString("…")
		return
	}
	switch v := v.(type) {
	case nil:
		buf.WriteString("<nil>")
	case *Term:
		buf.WriteString(v.String())
	case float32, float64, complex64, complex128, string:
		fmt.Fprintf(buf, "%v", v)
	case *SymString:
		buf.WriteString("<symstr ")
		for _, b := range v.b {
			if b.IsConst() {
				fmt.Fprintf(buf, "%02x", b.val)
			} else {
				buf.WriteString("??")
			}
		}
		buf.WriteString(">")
	case *Map:
		buf.WriteString("map[")
		if v != nil {
			sep := ""
			for _, e := range v.entries {
				if e.deleted {
					continue
				}
				buf.WriteString(sep)
				sep = " "
				writeValue(buf, e.key, depth+1)
				buf.WriteString(":")
				writeValue(buf, e.val, depth+1)
			}
		}
		buf.WriteString("]")
	case *Chan:
		fmt.Fprintf(buf, "chan(%p)", v)
	case *value:
		if v == nil {
			buf.WriteString("<nil>")
		} else {
			fmt.Fprintf(buf, "%p", v)
		}
	case iface:
		if v.t == nil {
			buf.WriteString("<nil>")
			return
		}
		fmt.Fprintf(buf, "(%s, ", v.t)
		writeValue(buf, v.v, depth+1)
		buf.WriteString(")")
	case structure:
		buf.WriteString("{")
		for i, e := range v {
			if i > 0 {
				buf.WriteString(" ")
			}
			writeValue(buf, e, depth+1)
		}
		buf.WriteString("}")
	case array:
		writeSeq(buf, []value(v), depth)
	case []value:
		writeSeq(buf, v, depth)
	case *ssa.Function, *ssa.Builtin, *closure:
		fmt.Fprintf(buf, "%p", v)
	case rtype:
		buf.WriteString(v.t.String())
	case tuple:
		buf.WriteString("(")
		for i, e := range v {
			if i > 0 {
				buf.WriteString(", ")
			}
			writeValue(buf, e, depth+1)
		}
		buf.WriteString(")")
	default:
		fmt.Fprintf(buf, "<%T>", v)
	}
}

func writeSeq(buf *bytes.Buffer, v []value, depth int) {
	buf.WriteString("[")
	for i, e := range v {
		if i > 0 {
			buf.WriteString(" ")
		}
		if i >= 40 {
			fmt.Fprintf(buf, "…(%d)", len(v))
			break
		}
		writeValue(buf, e, depth+1)
	}
	buf.WriteString("]")
}

func toString(v value) string {
	var b bytes.Buffer
	writeValue(&b, v, 0)
	return b.String()
}

// ------------------------------------------------------------------------
// Iterators

type stringIter struct {
	*strings.Reader
	i int
	m *Machine
}

func (it *stringIter) next() tuple {
	okv := make(tuple, 3)
	ch, n, err := it.ReadRune()
	ok := err == nil
	okv[0] = it.m.ts.Bool(ok)
	if ok {
		okv[1] = it.m.ts.BV(64, uint64(it.i))
		okv[2] = it.m.ts.BV(32, uint64(ch))
	} else {
		okv[1] = it.m.ts.BV(64, 0)
		okv[2] = it.m.ts.BV(32, 0)
	}
	it.i += n
	return okv
}
