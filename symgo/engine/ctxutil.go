package engine

import "go/types"

func isContextType(t types.Type) bool {
	n, ok := t.(*types.Named)
	if !ok {
		return false
	}
	o := n.Obj()
	return o.Name() == "Context" && o.Pkg() != nil && o.Pkg().Path() == "context"
}

// ctxArg returns the first argument whose parameter type is context.Context.
func ctxArg(sig *types.Signature, args []value) value {
	off := len(args) - sig.Params().Len()
	for i := 0; i < sig.Params().Len(); i++ {
		if isContextType(sig.Params().At(i).Type()) && i+off >= 0 && i+off < len(args) {
			return args[i+off]
		}
	}
	return nil
}
