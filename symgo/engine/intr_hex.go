package engine

// encoding/hex on symbolic bytes without forking per character.

func (m *Machine) fromHex(c *Term) (val *Term, valid *Term) {
	ts := m.ts
	d := ts.Sub(c, ts.BV(8, '0'))
	isD := ts.Ult(d, ts.BV(8, 10))
	a := ts.Sub(c, ts.BV(8, 'a'))
	isA := ts.Ult(a, ts.BV(8, 6))
	A := ts.Sub(c, ts.BV(8, 'A'))
	isAA := ts.Ult(A, ts.BV(8, 6))
	val = ts.Ite(isD, d, ts.Ite(isA, ts.Add(a, ts.BV(8, 10)), ts.Ite(isAA, ts.Add(A, ts.BV(8, 10)), ts.BV(8, 0))))
	valid = ts.BOr(isD, ts.BOr(isA, isAA))
	return
}

func (m *Machine) hexDecode(src []*Term) ([]value, bool, bool) {
	if len(src)%2 == 1 {
		return nil, false, true
	}
	ts := m.ts
	out := make([]value, len(src)/2)
	allValid := ts.True
	for i := 0; i < len(src)/2; i++ {
		h, hv := m.fromHex(src[2*i])
		l, lv := m.fromHex(src[2*i+1])
		allValid = ts.BAnd(allValid, ts.BAnd(hv, lv))
		out[i] = ts.Or(ts.Shl(h, ts.BV(8, 4)), l)
	}
	if !m.branch(allValid, "hex.valid") {
		return nil, false, false
	}
	return out, true, false
}

func init() {
	reg("encoding/hex.DecodeString", func(fr *frame, a []value) value {
		m := fr.m
		out, ok, oddLen := m.hexDecode(m.byteSeq(a[0]))
		if ok {
			return tuple{out, iface{}}
		}
		if oddLen {
			return tuple{[]value(nil), m.newError("encoding/hex: odd length hex string")}
		}
		return tuple{[]value(nil), m.newError("encoding/hex: invalid byte")}
	})
	reg("encoding/hex.EncodeToString", func(fr *frame, a []value) value {
		m := fr.m
		const digits = "0123456789abcdef"
		tab := make([]value, 16)
		for i := range tab {
			tab[i] = m.ts.BV(8, uint64(digits[i]))
		}
		src := m.byteSeq(a[0])
		out := make([]*Term, 0, 2*len(src))
		for _, b := range src {
			hi := m.ts.ZExt(m.ts.Extract(b, 7, 4), 8)
			lo := m.ts.ZExt(m.ts.Extract(b, 3, 0), 8)
			for _, nib := range []*Term{hi, lo} {
				if nib.IsConst() {
					out = append(out, tab[nib.val].(*Term))
				} else {
					out = append(out, m.loadElemRef(&elemRef{base: tab, idx: nib, elem: u8Type}).(*Term))
				}
			}
		}
		return normStr(&SymString{out})
	})
}

var u8Type = typesUint8()
