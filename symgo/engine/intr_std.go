package engine

import (
	"fmt"
	"go/token"
	"go/types"
	"math"
	"math/bits"
)

// internal/bytealg, math, math/bits and a few other leaf intrinsics.

func (m *Machine) byteSeq(v value) []*Term {
	switch s := v.(type) {
	case []value:
		out := make([]*Term, len(s))
		for i := range s {
			out[i] = s[i].(*Term)
		}
		return out
	case string:
		return m.toSym(s).b
	case *SymString:
		return s.b
	}
	panic(fmt.Sprintf("byteSeq: %T", v))
}

// indexByte returns the index of the first byte equal to c or -1; forks per
// position when bytes are symbolic.
func (m *Machine) indexByte(b []*Term, c *Term) int {
	for i, x := range b {
		if m.branch(m.ts.Eq(x, c), "indexbyte") {
			return i
		}
	}
	return -1
}

func (m *Machine) seqEq(a, b []*Term) *Term {
	if len(a) != len(b) {
		return m.ts.False
	}
	r := m.ts.True
	for i := range a {
		r = m.ts.BAnd(r, m.ts.Eq(a[i], b[i]))
		if r.IsFalse() {
			return r
		}
	}
	return r
}

func (m *Machine) indexSeq(a, b []*Term) int {
	for i := 0; i+len(b) <= len(a); i++ {
		if m.branch(m.seqEq(a[i:i+len(b)], b), "index") {
			return i
		}
	}
	return -1
}

func init() {
	reg("internal/bytealg.MakeNoZero", func(fr *frame, a []value) value {
		m := fr.m
		n := m.concInt(a[0], "MakeNoZero")
		s := make([]value, n)
		z := m.ts.BV(8, 0)
		for i := range s {
			s[i] = z
		}
		return s
	})
	for _, n := range []string{"internal/bytealg.IndexByte", "internal/bytealg.IndexByteString"} {
		reg(n, func(fr *frame, a []value) value {
			return fr.m.mkInt(int64(fr.m.indexByte(fr.m.byteSeq(a[0]), a[1].(*Term))))
		})
	}
	for _, n := range []string{"internal/bytealg.LastIndexByte", "internal/bytealg.LastIndexByteString"} {
		reg(n, func(fr *frame, a []value) value {
			m := fr.m
			b := m.byteSeq(a[0])
			for i := len(b) - 1; i >= 0; i-- {
				if m.branch(m.ts.Eq(b[i], a[1].(*Term)), "lastindexbyte") {
					return m.mkInt(int64(i))
				}
			}
			return m.mkInt(-1)
		})
	}
	for _, n := range []string{"internal/bytealg.Count", "internal/bytealg.CountString"} {
		reg(n, func(fr *frame, a []value) value {
			m := fr.m
			cnt := m.ts.BV(64, 0)
			for _, x := range m.byteSeq(a[0]) {
				cnt = m.ts.Add(cnt, m.ts.Ite(m.ts.Eq(x, a[1].(*Term)), m.ts.BV(64, 1), m.ts.BV(64, 0)))
			}
			return cnt
		})
	}
	reg("internal/bytealg.Equal", func(fr *frame, a []value) value {
		return fr.m.seqEq(fr.m.byteSeq(a[0]), fr.m.byteSeq(a[1]))
	})
	cmp := func(fr *frame, a []value) value {
		m := fr.m
		x, y := m.byteSeq(a[0]), m.byteSeq(a[1])
		lt := m.symStrOp(token.LSS, &SymString{x}, &SymString{y}).(*Term)
		eq := m.seqEq(x, y)
		return m.ts.Ite(eq, m.ts.BV(64, 0), m.ts.Ite(lt, m.ts.BV(64, ^uint64(0)), m.ts.BV(64, 1)))
	}
	reg("internal/bytealg.Compare", cmp)
	reg("internal/bytealg.CompareString", cmp)
	reg("bytes.Compare", cmp)
	reg("strings.Compare", cmp)
	for _, n := range []string{"internal/bytealg.Index", "internal/bytealg.IndexString"} {
		reg(n, func(fr *frame, a []value) value {
			return fr.m.mkInt(int64(fr.m.indexSeq(fr.m.byteSeq(a[0]), fr.m.byteSeq(a[1]))))
		})
	}
	reg("internal/bytealg.IndexRabinKarp", func(fr *frame, a []value) value {
		return fr.m.mkInt(int64(fr.m.indexSeq(fr.m.byteSeq(a[0]), fr.m.byteSeq(a[1]))))
	})
	reg("internal/bytealg.Cutover", func(fr *frame, a []value) value { return fr.m.mkInt(1 << 30) })
	reg("bytes.Equal", func(fr *frame, a []value) value {
		return fr.m.seqEq(fr.m.byteSeq(a[0]), fr.m.byteSeq(a[1]))
	})
	reg("bytes.Index", func(fr *frame, a []value) value {
		return fr.m.mkInt(int64(fr.m.indexSeq(fr.m.byteSeq(a[0]), fr.m.byteSeq(a[1]))))
	})
	reg("strings.Index", func(fr *frame, a []value) value {
		return fr.m.mkInt(int64(fr.m.indexSeq(fr.m.byteSeq(a[0]), fr.m.byteSeq(a[1]))))
	})
	reg("internal/stringslite.Index", func(fr *frame, a []value) value {
		return fr.m.mkInt(int64(fr.m.indexSeq(fr.m.byteSeq(a[0]), fr.m.byteSeq(a[1]))))
	})
	reg("internal/stringslite.IndexByte", func(fr *frame, a []value) value {
		return fr.m.mkInt(int64(fr.m.indexByte(fr.m.byteSeq(a[0]), a[1].(*Term))))
	})
	reg("strings.IndexByte", func(fr *frame, a []value) value {
		return fr.m.mkInt(int64(fr.m.indexByte(fr.m.byteSeq(a[0]), a[1].(*Term))))
	})
	reg("bytes.IndexByte", func(fr *frame, a []value) value {
		return fr.m.mkInt(int64(fr.m.indexByte(fr.m.byteSeq(a[0]), a[1].(*Term))))
	})
	reg("internal/stringslite.HasPrefix", func(fr *frame, a []value) value {
		m := fr.m
		x, y := m.byteSeq(a[0]), m.byteSeq(a[1])
		if len(x) < len(y) {
			return m.ts.False
		}
		return m.seqEq(x[:len(y)], y)
	})
	reg("internal/stringslite.HasSuffix", func(fr *frame, a []value) value {
		m := fr.m
		x, y := m.byteSeq(a[0]), m.byteSeq(a[1])
		if len(x) < len(y) {
			return m.ts.False
		}
		return m.seqEq(x[len(x)-len(y):], y)
	})

	// math (concrete floats only)
	f1 := func(f func(float64) float64) intrinsic {
		return func(fr *frame, a []value) value { return f(a[0].(float64)) }
	}
	reg("math.Log2", f1(math.Log2))
	reg("math.Log", f1(math.Log))
	reg("math.Log10", f1(math.Log10))
	reg("math.Sqrt", f1(math.Sqrt))
	reg("math.Ceil", f1(math.Ceil))
	reg("math.Floor", f1(math.Floor))
	reg("math.Abs", f1(math.Abs))
	reg("math.Exp", f1(math.Exp))
	reg("math.Trunc", f1(math.Trunc))
	reg("math.Round", f1(math.Round))
	reg("math.Pow", func(fr *frame, a []value) value { return math.Pow(a[0].(float64), a[1].(float64)) })
	reg("math.Float64bits", func(fr *frame, a []value) value { return fr.m.ts.BV(64, math.Float64bits(a[0].(float64))) })
	reg("math.Float32bits", func(fr *frame, a []value) value {
		return fr.m.ts.BV(32, uint64(math.Float32bits(a[0].(float32))))
	})
	reg("math.Float64frombits", func(fr *frame, a []value) value {
		return math.Float64frombits(fr.m.concUint(a[0], "float bits"))
	})
	reg("math.IsNaN", func(fr *frame, a []value) value { return fr.m.ts.Bool(math.IsNaN(a[0].(float64))) })
	reg("math.IsInf", func(fr *frame, a []value) value {
		return fr.m.ts.Bool(math.IsInf(a[0].(float64), int(fr.m.concInt(a[1], "sign"))))
	})
	reg("math.Inf", func(fr *frame, a []value) value { return math.Inf(int(fr.m.concInt(a[0], "sign"))) })

	// math/bits on concrete operands fast-paths; symbolic handled by source
	reg("math/bits.Len64", func(fr *frame, a []value) value {
		m := fr.m
		x := a[0].(*Term)
		if x.IsConst() {
			return m.mkInt(int64(bits.Len64(x.Uint())))
		}
		// ite chain: position of highest set bit + 1
		r := m.ts.BV(64, 0)
		for i := 0; i < 64; i++ {
			bit := m.ts.Extract(x, uint8(i), uint8(i))
			r = m.ts.Ite(m.ts.Eq(bit, m.ts.BV(1, 1)), m.ts.BV(64, uint64(i+1)), r)
		}
		return r
	})
	reg("math/bits.Len", intrinsics["math/bits.Len64"])
	reg("math/bits.TrailingZeros64", func(fr *frame, a []value) value {
		m := fr.m
		x := a[0].(*Term)
		if x.IsConst() {
			return m.mkInt(int64(bits.TrailingZeros64(x.Uint())))
		}
		r := m.ts.BV(64, 64)
		for i := 63; i >= 0; i-- {
			bit := m.ts.Extract(x, uint8(i), uint8(i))
			r = m.ts.Ite(m.ts.Eq(bit, m.ts.BV(1, 1)), m.ts.BV(64, uint64(i)), r)
		}
		return r
	})
	reg("math/bits.OnesCount64", func(fr *frame, a []value) value {
		m := fr.m
		x := a[0].(*Term)
		if x.IsConst() {
			return m.mkInt(int64(bits.OnesCount64(x.Uint())))
		}
		r := m.ts.BV(64, 0)
		for i := 0; i < 64; i++ {
			r = m.ts.Add(r, m.ts.ZExt(m.ts.Extract(x, uint8(i), uint8(i)), 64))
		}
		return r
	})

	// strconv fast paths on concrete values (source handles the rest)
	reg("strconv.Itoa", func(fr *frame, a []value) value {
		t := a[0].(*Term)
		if !t.IsConst() {
			return "<sym>"
		}
		return fmt.Sprint(t.Int())
	})

	// os / misc
	reg("os.Getenv", func(fr *frame, a []value) value { return "" })
	reg("os.LookupEnv", func(fr *frame, a []value) value { return tuple{"", fr.m.ts.False} })
	_ = types.Typ
}

// sliceData is the result of unsafe.SliceData / unsafe.StringData.
type sliceData struct {
	s   []value
	str value
}

func (m *Machine) sliceStr(s value, n int) value {
	switch x := s.(type) {
	case string:
		return x[:n]
	case *SymString:
		return normStr(&SymString{x.b[:n]})
	}
	panic("sliceStr")
}

// sortSlice sorts an engine slice in place with a user less function
// (insertion sort; less may be symbolic and then forks).
func (m *Machine) sortSlice(fr *frame, s []value, less value) {
	for i := 1; i < len(s); i++ {
		for j := i; j > 0; j-- {
			r := m.call(fr, nil, less, []value{m.mkInt(int64(j)), m.mkInt(int64(j - 1))})
			if !m.branch(r.(*Term), "sort.less") {
				break
			}
			s[j], s[j-1] = s[j-1], s[j]
		}
	}
}

func init() {
	reg("internal/abi.NoEscape", func(fr *frame, a []value) value { return a[0] })
	reg("internal/abi.Escape", func(fr *frame, a []value) value { return a[0] })
	// context.WithValue only asks whether the key type is comparable
	reg("internal/reflectlite.TypeOf", func(fr *frame, a []value) value {
		return iface{t: types.Typ[types.Int], v: &opaque{t: types.Typ[types.Int], from: "reflectlite.TypeOf", noop: true}}
	})
	for _, n := range []string{"sort.Slice", "sort.SliceStable"} {
		reg(n, func(fr *frame, a []value) value {
			s, ok := a[0].(iface).v.([]value)
			if !ok {
				fr.m.unsupported("sort.Slice on non-slice")
			}
			fr.m.sortSlice(fr, s, a[1])
			return nil
		})
	}
	reg("sort.SliceIsSorted", func(fr *frame, a []value) value {
		m := fr.m
		s := a[0].(iface).v.([]value)
		for i := len(s) - 1; i > 0; i-- {
			r := m.call(fr, nil, a[1], []value{m.mkInt(int64(i)), m.mkInt(int64(i - 1))})
			if m.branch(r.(*Term), "sort.less") {
				return m.ts.False
			}
		}
		return m.ts.True
	})
}
