package engine

import "go/types"

func typesUint8() types.Type { return types.Typ[types.Uint8] }
