package engine

import (
	"fmt"
	"go/types"
)

// sync / sync/atomic intrinsics, implemented on top of the scheduler.

type wgState struct{ n int64 }
type onceState struct {
	done    bool
	running bool
}

func cell(v value) *value {
	p, ok := v.(*value)
	if !ok || p == nil {
		panic(targetPanic{iface{}})
	}
	return p
}

func (m *Machine) ptrArg(v value) *value {
	p, ok := v.(*value)
	if !ok {
		m.unsupported(fmt.Sprintf("sync primitive through %T", v))
	}
	if p == nil {
		m.panicRuntime("invalid memory address or nil pointer dereference")
	}
	return p
}

func init() {
	reg("(*sync.Mutex).Lock", func(fr *frame, a []value) value { fr.m.mutexLock(fr.m.ptrArg(a[0]), "Mutex"); return nil })
	reg("(*sync.Mutex).Unlock", func(fr *frame, a []value) value { fr.m.mutexUnlock(fr.m.ptrArg(a[0]), "Mutex"); return nil })
	reg("(*sync.Mutex).TryLock", func(fr *frame, a []value) value { return fr.m.ts.Bool(fr.m.mutexTryLock(fr.m.ptrArg(a[0]))) })
	reg("(*sync.RWMutex).Lock", func(fr *frame, a []value) value { fr.m.mutexLock(fr.m.ptrArg(a[0]), "RWMutex"); return nil })
	reg("(*sync.RWMutex).Unlock", func(fr *frame, a []value) value { fr.m.mutexUnlock(fr.m.ptrArg(a[0]), "RWMutex"); return nil })
	reg("(*sync.RWMutex).RLock", func(fr *frame, a []value) value { fr.m.mutexRLock(fr.m.ptrArg(a[0]), "RWMutex"); return nil })
	reg("(*sync.RWMutex).RUnlock", func(fr *frame, a []value) value { fr.m.mutexRUnlock(fr.m.ptrArg(a[0]), "RWMutex"); return nil })
	reg("(*sync.RWMutex).TryLock", func(fr *frame, a []value) value { return fr.m.ts.Bool(fr.m.mutexTryLock(fr.m.ptrArg(a[0]))) })
	reg("(*sync.RWMutex).TryRLock", func(fr *frame, a []value) value { return fr.m.ts.Bool(fr.m.mutexTryRLock(fr.m.ptrArg(a[0]))) })

	wg := func(m *Machine, p *value) *wgState {
		s, _ := m.side[p].(*wgState)
		if s == nil {
			s = &wgState{}
			m.side[p] = s
		}
		return s
	}
	reg("(*sync.WaitGroup).Add", func(fr *frame, a []value) value {
		m := fr.m
		s := wg(m, m.ptrArg(a[0]))
		s.n += m.concInt(a[1], "WaitGroup delta")
		if s.n < 0 {
			m.panicRuntimePlain("sync: negative WaitGroup counter")
		}
		return nil
	})
	reg("(*sync.WaitGroup).Done", func(fr *frame, a []value) value {
		m := fr.m
		s := wg(m, m.ptrArg(a[0]))
		s.n--
		if s.n < 0 {
			m.panicRuntimePlain("sync: negative WaitGroup counter")
		}
		m.yield("wg.Done")
		return nil
	})
	reg("(*sync.WaitGroup).Wait", func(fr *frame, a []value) value {
		m := fr.m
		s := wg(m, m.ptrArg(a[0]))
		m.yield("wg.Wait")
		m.block(func() bool { return s.n == 0 }, "WaitGroup.Wait")
		return nil
	})
	reg("(*sync.WaitGroup).Go", func(fr *frame, a []value) value {
		m := fr.m
		s := wg(m, m.ptrArg(a[0]))
		s.n++
		f := a[1]
		m.spawn(fr, nil, &nativeFn{name: "wg.Go", f: func(m *Machine, caller *frame, _ []value) value {
			m.call(caller, nil, f, nil)
			s.n--
			return nil
		}}, nil)
		return nil
	})

	reg("(*sync.Once).Do", func(fr *frame, a []value) value {
		m := fr.m
		p := m.ptrArg(a[0])
		s, _ := m.side[p].(*onceState)
		if s == nil {
			s = &onceState{}
			m.side[p] = s
		}
		m.yield("once")
		if s.done {
			return nil
		}
		if s.running {
			m.block(func() bool { return s.done }, "Once.Do")
			return nil
		}
		s.running = true
		defer func() { s.done = true; s.running = false }()
		m.call(fr, nil, a[1], nil)
		return nil
	})

	// sync.Map as an engine map keyed by interface values
	smap := func(m *Machine, p *value) *Map {
		s, _ := m.side[p].(*Map)
		if s == nil {
			anyT := types.NewInterfaceType(nil, nil)
			s = newMap(anyT, anyT)
			m.side[p] = s
		}
		return s
	}
	reg("(*sync.Map).Load", func(fr *frame, a []value) value {
		m := fr.m
		v, ok := m.mapLookup(smap(m, m.ptrArg(a[0])), a[1])
		if !ok {
			return tuple{iface{}, m.ts.False}
		}
		return tuple{v, m.ts.True}
	})
	reg("(*sync.Map).Store", func(fr *frame, a []value) value {
		m := fr.m
		m.mapInsert(smap(m, m.ptrArg(a[0])), a[1], a[2])
		return nil
	})
	reg("(*sync.Map).LoadOrStore", func(fr *frame, a []value) value {
		m := fr.m
		mp := smap(m, m.ptrArg(a[0]))
		m.yield("sync.Map")
		if v, ok := m.mapLookup(mp, a[1]); ok {
			return tuple{v, m.ts.True}
		}
		m.mapInsert(mp, a[1], a[2])
		return tuple{a[2], m.ts.False}
	})
	reg("(*sync.Map).LoadAndDelete", func(fr *frame, a []value) value {
		m := fr.m
		mp := smap(m, m.ptrArg(a[0]))
		m.yield("sync.Map")
		if v, ok := m.mapLookup(mp, a[1]); ok {
			m.mapDelete(mp, a[1])
			return tuple{v, m.ts.True}
		}
		return tuple{iface{}, m.ts.False}
	})
	reg("(*sync.Map).Delete", func(fr *frame, a []value) value {
		m := fr.m
		m.mapDelete(smap(m, m.ptrArg(a[0])), a[1])
		return nil
	})
	reg("(*sync.Map).CompareAndDelete", func(fr *frame, a []value) value {
		m := fr.m
		mp := smap(m, m.ptrArg(a[0]))
		m.yield("sync.Map")
		if v, ok := m.mapLookup(mp, a[1]); ok {
			old := a[2].(iface)
			if m.branch(m.equals(types.NewInterfaceType(nil, nil), v, old), "syncmap.cad") {
				m.mapDelete(mp, a[1])
				return m.ts.True
			}
		}
		return m.ts.False
	})
	reg("(*sync.Map).Range", func(fr *frame, a []value) value {
		m := fr.m
		mp := smap(m, m.ptrArg(a[0]))
		it := m.newMapIter(mp)
		for {
			t := it.next()
			if t[0].(*Term).IsFalse() {
				break
			}
			r := m.call(fr, nil, a[1], []value{t[1], t[2]})
			if !m.branch(r.(*Term), "syncmap.range") {
				break
			}
		}
		return nil
	})

	// sync.Pool: Get always calls New (no reuse) — sound for code that does not
	// depend on reuse.
	reg("(*sync.Pool).Get", func(fr *frame, a []value) value {
		m := fr.m
		p := m.ptrArg(a[0])
		st := (*p).(structure)
		newFn := st[len(st)-1]
		if isNilFunc(newFn) {
			return iface{}
		}
		return m.call(fr, nil, newFn, nil)
	})
	reg("(*sync.Pool).Put", func(fr *frame, a []value) value { return nil })

	// sync/atomic functions on cells
	for _, w := range []struct {
		suffix string
	}{{"Int32"}, {"Int64"}, {"Uint32"}, {"Uint64"}, {"Uintptr"}} {
		s := w.suffix
		reg("sync/atomic.Load"+s, func(fr *frame, a []value) value { fr.m.yield("atomic"); return *fr.m.ptrArg(a[0]) })
		reg("sync/atomic.Store"+s, func(fr *frame, a []value) value { fr.m.yield("atomic"); *fr.m.ptrArg(a[0]) = a[1]; return nil })
		reg("sync/atomic.Add"+s, func(fr *frame, a []value) value {
			fr.m.yield("atomic")
			p := fr.m.ptrArg(a[0])
			n := fr.m.ts.Add((*p).(*Term), a[1].(*Term))
			*p = n
			return n
		})
		reg("sync/atomic.Swap"+s, func(fr *frame, a []value) value {
			fr.m.yield("atomic")
			p := fr.m.ptrArg(a[0])
			old := *p
			*p = a[1]
			return old
		})
		reg("sync/atomic.CompareAndSwap"+s, func(fr *frame, a []value) value {
			m := fr.m
			m.yield("atomic")
			p := m.ptrArg(a[0])
			if m.branch(m.ts.Eq((*p).(*Term), a[1].(*Term)), "cas") {
				*p = a[2]
				return m.ts.True
			}
			return m.ts.False
		})
		reg("sync/atomic.And"+s, func(fr *frame, a []value) value {
			p := fr.m.ptrArg(a[0])
			old := (*p).(*Term)
			*p = fr.m.ts.And(old, a[1].(*Term))
			return old
		})
		reg("sync/atomic.Or"+s, func(fr *frame, a []value) value {
			p := fr.m.ptrArg(a[0])
			old := (*p).(*Term)
			*p = fr.m.ts.Or(old, a[1].(*Term))
			return old
		})
	}
	reg("sync/atomic.LoadPointer", func(fr *frame, a []value) value { fr.m.yield("atomic"); return *fr.m.ptrArg(a[0]) })
	reg("sync/atomic.StorePointer", func(fr *frame, a []value) value { fr.m.yield("atomic"); *fr.m.ptrArg(a[0]) = a[1]; return nil })
	reg("sync/atomic.SwapPointer", func(fr *frame, a []value) value {
		p := fr.m.ptrArg(a[0])
		old := *p
		*p = a[1]
		return old
	})
	reg("sync/atomic.CompareAndSwapPointer", func(fr *frame, a []value) value {
		m := fr.m
		m.yield("atomic")
		p := m.ptrArg(a[0])
		if (*p) == a[1] {
			*p = a[2]
			return m.ts.True
		}
		return m.ts.False
	})

	// atomic.Value: struct{ v any }
	reg("(*sync/atomic.Value).Load", func(fr *frame, a []value) value {
		fr.m.yield("atomic")
		return (*fr.m.ptrArg(a[0])).(structure)[0]
	})
	reg("(*sync/atomic.Value).Store", func(fr *frame, a []value) value {
		fr.m.yield("atomic")
		if a[1].(iface).t == nil {
			fr.m.panicRuntimePlain("sync/atomic: store of nil value into Value")
		}
		(*fr.m.ptrArg(a[0])).(structure)[0] = a[1]
		return nil
	})
	reg("(*sync/atomic.Value).Swap", func(fr *frame, a []value) value {
		st := (*fr.m.ptrArg(a[0])).(structure)
		old := st[0]
		st[0] = a[1]
		return old
	})
	reg("(*sync/atomic.Value).CompareAndSwap", func(fr *frame, a []value) value {
		m := fr.m
		st := (*m.ptrArg(a[0])).(structure)
		anyT := types.NewInterfaceType(nil, nil)
		if m.branch(m.equals(anyT, st[0], a[1]), "cas") {
			st[0] = a[2]
			return m.ts.True
		}
		return m.ts.False
	})

	// atomic.Pointer[T]: struct{ _ [0]*T; _ noCopy; v unsafe.Pointer }
	pfield := func(m *Machine, v value) *value {
		st := (*m.ptrArg(v)).(structure)
		return &st[len(st)-1]
	}
	prefixIntrinsics = append(prefixIntrinsics,
		prefixEntry{"(*sync/atomic.Pointer[", func(fr *frame, a []value) value {
			m := fr.m
			m.yield("atomic")
			f := pfield(m, a[0])
			switch fr.fn.Name() {
			case "Load":
				return *f
			case "Store":
				*f = a[1]
				return nil
			case "Swap":
				old := *f
				*f = a[1]
				return old
			case "CompareAndSwap":
				if *f == a[1] {
					*f = a[2]
					return m.ts.True
				}
				return m.ts.False
			}
			m.unsupported("atomic.Pointer." + fr.fn.Name())
			return nil
		}},
	)
}
