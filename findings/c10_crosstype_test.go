package bitswap

// Demonstration (against the real code, real go-cid / go-multihash registry,
// real containers and verification) of the defect found by
// VerifH_C10_HasherOfOneTypeRefusesBlocksOfAnother: a Bitswap block announced
// under the multihash code of one block type but carrying the identifier of
// another type is accepted by the hasher as soon as a request for that other
// identifier is pending, and the digest it returns fulfils a pending request
// of the announced type without filling anything in.
//
// Run: tools/run_finding.sh c10_crosstype_test.go share/shwap/p2p/bitswap TestVerifC10

import (
	"context"
	"testing"
	"time"

	blocks "github.com/ipfs/go-block-format"
	"github.com/ipfs/go-cid"
	"github.com/stretchr/testify/require"

	libshare "github.com/celestiaorg/go-square/v4/share"

	"github.com/celestiaorg/celestia-node/share/eds"
	"github.com/celestiaorg/celestia-node/share/eds/edstest"
	"github.com/celestiaorg/celestia-node/share/shwap"
)

// verifPeer hands out one payload the way Bitswap decodes a received message:
// the CID of a block is prefix.Sum(data) for the prefix it was announced
// under; the block is delivered to the session iff that CID is wanted. Like
// Bitswap it closes the channel only when every wanted block arrived or the
// context ended.
type verifPeer struct{ payload []byte }

func (p *verifPeer) GetBlock(context.Context, cid.Cid) (blocks.Block, error) { panic("unused") }

func (p *verifPeer) GetBlocks(ctx context.Context, cids []cid.Cid) (<-chan blocks.Block, error) {
	ch := make(chan blocks.Block, len(cids))
	go func() {
		defer close(ch)
		delivered := 0
		for _, want := range cids {
			got, err := want.Prefix().Sum(p.payload)
			if err != nil || !got.Equals(want) {
				continue
			}
			b, _ := blocks.NewBlockWithCid(p.payload, got)
			ch <- b
			delivered++
		}
		if delivered < len(cids) {
			<-ctx.Done()
		}
	}()
	return ch, nil
}

func (p *verifPeer) NotifyNewBlocks(context.Context, ...blocks.Block) error { return nil }
func (p *verifPeer) Close() error                                            { return nil }

func TestVerifC10_RangeBlockFulfilsAPendingSampleRequest(t *testing.T) {
	ctx, cancel := context.WithTimeout(context.Background(), 2*time.Second)
	defer cancel()
	ns := libshare.RandomNamespace()
	square, root := edstest.RandEDSWithNamespace(t, ns, 64, 8)
	bstore := &Blockstore{Getter: testAccessorGetter{AccessorStreamer: &eds.Rsmt2D{ExtendedDataSquare: square}}}

	const height, r, c = 1, 3, 5
	// the honest block a serving node produces for the range id (height, from=r, to=c)
	rng, err := NewEmptyRangeNamespaceDataBlock(height, r, c, 8)
	require.NoError(t, err)
	honest, err := bstore.Get(ctx, rng.CID())
	require.NoError(t, err)
	// a sample request whose 12 id bytes coincide: (height, row=r, col=c)
	smpl, err := NewEmptySampleBlock(height, shwap.SampleCoords{Row: r, Col: c}, 16)
	require.NoError(t, err)

	err = Fetch(ctx, &verifPeer{payload: honest.RawData()}, root, []Block{rng, smpl})
	require.False(t, rng.Container.IsEmpty(), "the range request is legitimately fulfilled")
	if err == nil {
		require.False(t, smpl.Container.IsEmpty(),
			"Fetch reported the sample request fulfilled, but the only bytes received carry a range identifier and nothing was filled in")
	}
}

func TestVerifC10_RowNamespaceDataBlockFulfilsAPendingRowRequest(t *testing.T) {
	ctx, cancel := context.WithTimeout(context.Background(), 2*time.Second)
	defer cancel()
	ns := libshare.RandomNamespace()
	square, root := edstest.RandEDSWithNamespace(t, ns, 64, 8)
	bstore := &Blockstore{Getter: testAccessorGetter{AccessorStreamer: &eds.Rsmt2D{ExtendedDataSquare: square}}}

	const height, r = 1, 0
	rnd, err := NewEmptyRowNamespaceDataBlock(height, r, ns, 16)
	require.NoError(t, err)
	honest, err := bstore.Get(ctx, rnd.CID())
	require.NoError(t, err)
	row, err := NewEmptyRowBlock(height, r, 16)
	require.NoError(t, err)

	err = Fetch(ctx, &verifPeer{payload: honest.RawData()}, root, []Block{rnd, row})
	require.False(t, rnd.Container.IsEmpty(), "the row-namespace-data request is legitimately fulfilled")
	if err == nil {
		require.False(t, row.Container.IsEmpty(),
			"Fetch reported the row request fulfilled, but the only bytes received carry a row-namespace-data identifier and nothing was filled in")
	}
}
