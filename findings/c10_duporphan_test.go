package bitswap

import (
	"context"
	"sync"
	"testing"
	"time"

	"github.com/ipfs/boxo/blockstore"
	"github.com/ipfs/boxo/exchange"
	blocks "github.com/ipfs/go-block-format"
	"github.com/ipfs/go-cid"
	mocknet "github.com/libp2p/go-libp2p/p2p/net/mock"
	"github.com/stretchr/testify/require"

	"github.com/celestiaorg/celestia-node/share"
	"github.com/celestiaorg/celestia-node/share/eds"
	"github.com/celestiaorg/celestia-node/share/eds/edstest"
	"github.com/celestiaorg/celestia-node/share/shwap"
)

// fGatedBlockstore holds every Get back until the gate is opened, so that the
// test decides when the serving nodes answer.
type fGatedBlockstore struct {
	blockstore.Blockstore
	gate chan struct{}
}

func (g *fGatedBlockstore) Get(ctx context.Context, c cid.Cid) (blocks.Block, error) {
	select {
	case <-g.gate:
	case <-ctx.Done():
		return nil, ctx.Err()
	}
	return g.Blockstore.Get(ctx, c)
}

// fSignalFetcher tells the test when Fetch has registered its blocks and asked Bitswap for them.
type fSignalFetcher struct {
	exchange.Fetcher
	once    sync.Once
	started chan struct{}
}

func (f *fSignalFetcher) GetBlocks(ctx context.Context, cids []cid.Cid) (<-chan blocks.Block, error) {
	ch, err := f.Fetcher.GetBlocks(ctx, cids)
	f.once.Do(func() { close(f.started) })
	return ch, err
}

// TestFindingC10_DuplicateOrphanedByCancelledOriginal:
// two fetches of the same sample run concurrently; the later one (the duplicate) gives up
// before any peer answered. The honest block that the serving node then produces for the
// identifier must still verify and fill the first, still pending, request.
func TestFindingC10_DuplicateOrphanedByCancelledOriginal(t *testing.T) {
	ctx, cancel := context.WithTimeout(context.Background(), time.Second*20)
	defer cancel()

	square := edstest.RandEDS(t, 4)
	root, err := share.NewAxisRoots(square)
	require.NoError(t, err)

	inner := &Blockstore{
		Getter: testAccessorGetter{
			AccessorStreamer: &eds.Rsmt2D{ExtendedDataSquare: square},
		},
	}
	gate := make(chan struct{})
	served := &fGatedBlockstore{Blockstore: inner, gate: gate}

	net, err := mocknet.FullMeshLinked(3)
	require.NoError(t, err)
	newServer(ctx, net.Hosts()[0], served)
	newServer(ctx, net.Hosts()[1], served)
	client := newClient(ctx, net.Hosts()[2], inner)
	require.NoError(t, net.ConnectAllButSelf())
	time.Sleep(time.Millisecond * 10)

	idx := shwap.SampleCoords{Row: 1, Col: 2}
	first, err := NewEmptySampleBlock(1, idx, len(root.RowRoots))
	require.NoError(t, err)
	second, err := NewEmptySampleBlock(1, idx, len(root.RowRoots))
	require.NoError(t, err)
	require.True(t, first.CID().Equals(second.CID()))

	// the first (original) request
	firstCtx, firstCancel := context.WithCancel(ctx)
	defer firstCancel()
	firstStarted := &fSignalFetcher{Fetcher: client, started: make(chan struct{})}
	firstDone := make(chan error, 1)
	go func() {
		firstDone <- Fetch(firstCtx, client, root, []Block{first}, WithFetcher(firstStarted))
	}()
	select {
	case <-firstStarted.started:
	case <-ctx.Done():
		t.Fatal("first fetch did not start")
	}

	// the concurrent duplicate request for the same identifier, which is given up
	// while nobody has answered yet
	dupCtx, dupCancel := context.WithCancel(ctx)
	dupStarted := &fSignalFetcher{Fetcher: client, started: make(chan struct{})}
	dupDone := make(chan error, 1)
	go func() {
		dupDone <- Fetch(dupCtx, client, root, []Block{second}, WithFetcher(dupStarted))
	}()
	select {
	case <-dupStarted.started:
	case <-ctx.Done():
		t.Fatal("duplicate fetch did not start")
	}
	defer dupCancel()
	// the ORIGINAL requester gives up while nobody has answered yet
	firstCancel()
	select {
	case err := <-firstDone:
		require.ErrorIs(t, err, context.Canceled)
	case <-ctx.Done():
		t.Fatal("cancelled original fetch did not return")
	}
	if _, registered := unmarshalFns.Load(second.CID()); !registered {
		t.Log("the still pending duplicate request lost its verifier when the original fetch was cancelled")
	}

	// now the serving nodes answer with the honest block
	close(gate)

	select {
	case err := <-dupDone:
		require.NoError(t, err)
	case <-time.After(time.Second * 5):
		t.Fatal("honest block from the serving node did not fulfil the pending (duplicate) request")
	}
	require.False(t, second.Container.IsEmpty(), "fetch returned without the requested data")
	require.NoError(t, second.Container.Verify(root, second.ID.RowIndex, second.ID.ShareIndex))
}
