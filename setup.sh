#!/bin/sh
# Build the engine from files on disk only and warm the export data the
# loader needs (go/packages takes non-source dependencies from the build cache).
set -e
export PATH=/root/go/pkg/mod/golang.org/toolchain@v0.0.1-go1.26.2.linux-amd64/bin:$PATH GOTOOLCHAIN=local GOFLAGS=-mod=mod GOPROXY=off
mkdir -p /verif/bin /verif/.work /verif/evidence /verif/replays
(cd /verif/symgo && go build -o /verif/bin/symgo ./cmd/symgo)
(cd /repo && go build ./... )
echo setup done
/verif/tools/selftest.sh
